(** encoding/json.Unmarshal(bz, &data) with [var data proto.Message = &FungibleTokenPacketData{}]
    (/repo/modules/apps/transfer/types/packet.go UnmarshalPacketData, EncodingJSON branch), go1.26.5
    encoding/json (v1; GOEXPERIMENT jsonv2 off).  Definitions only.

    Unmarshal = checkValid (scanner.go state machine over the whole input; any syntax error wins) and then
    decodeState.unmarshal (decode.go).  The target is a pointer to a non-nil interface holding a
    *FungibleTokenPacketData, and that type HAS a custom unmarshaler
    (/repo/modules/apps/transfer/types/encoding.go, FungibleTokenPacketData.UnmarshalJSON), so:
    - a top-level null: literalStore calls indirect(v, decodingNull=true), which stops at the settable
      interface value, and v.SetZero() makes data == nil (no error);
    - any other top-level value: indirect finds the Unmarshaler and the bytes of the value are handed to
      UnmarshalJSON, which runs json.NewDecoder(..).DisallowUnknownFields().Decode(&alias) with
      [type ftpdAlias FungibleTokenPacketData] (same fields and tags, no methods) and then assigns
      *ftpd = alias.  That inner decode is decodeState.object over the struct: keys looked up by exact name,
      then by foldName; an unknown key saves the error "json: unknown field" (its value is still skipped);
      a non-string non-null value for a known key saves an UnmarshalTypeError; the first saved error is
      returned at the end.  A top-level array/string/number/bool is an UnmarshalTypeError. *)
From IBC Require Import Lib.Bytes Codec.JsonUtf8 Codec.JsonEnc.
Local Open Scope N_scope.

(** * scanner.go *)

Inductive sstep :=
| SBeginValue | SBeginValueOrEmpty | SBeginStringOrEmpty | SBeginString | SEndValue | SEndTop
| SInString | SInStringEsc | SEscU | SEscU1 | SEscU12 | SEscU123
| SNeg | S1 | S0 | SDot | SDot0 | SE | SESign | SE0
| ST | STr | STru | SF | SFa | SFal | SFals | SN | SNu | SNul.

Inductive pst := PKey | PVal | PArr.      (* parseObjectKey | parseObjectValue | parseArrayValue *)

(** [depth] = len(parseState) (kept beside the list so that the maxNestingDepth test is O(1)) *)
Record scanner := mkSc { sc_step : sstep; sc_stack : list pst; sc_depth : N; sc_endtop : bool }.

Definition sc_set (sc : scanner) (s : sstep) : scanner := mkSc s (sc_stack sc) (sc_depth sc) (sc_endtop sc).

Definition max_nesting_depth : N := 10000.

Definition is_space (b : N) : bool := (b =? 32) || (b =? 9) || (b =? 13) || (b =? 10).
Definition is_hex (b : N) : bool :=
  ((48 <=? b) && (b <=? 57)) || ((97 <=? b) && (b <=? 102)) || ((65 <=? b) && (b <=? 70)).
Definition is_dig (b : N) : bool := (48 <=? b) && (b <=? 57).

(** pushParseState: None = scanError ("exceeded max depth") *)
Definition sc_push (sc : scanner) (p : pst) (nxt : sstep) : option scanner :=
  let d := sc_depth sc + 1 in
  if d <=? max_nesting_depth then Some (mkSc nxt (p :: sc_stack sc) d (sc_endtop sc)) else None.

(** popParseState (the caller has checked that the stack is not empty) *)
Definition sc_pop (sc : scanner) (rest : list pst) : scanner :=
  match rest with
  | [] => mkSc SEndTop [] 0 true
  | _ => mkSc SEndValue rest (sc_depth sc - 1) (sc_endtop sc)
  end.

(** stateEndValue.  With an empty stack it becomes stateEndTop: a non-space byte there records the error
    and the scanner is in stateError from then on, so checkValid fails; the model reports the error at
    once (None). *)
Definition sc_end_value (sc : scanner) (b : N) : option scanner :=
  match sc_stack sc with
  | [] => if is_space b then Some (mkSc SEndTop [] (sc_depth sc) true) else None
  | ps :: rest =>
      if is_space b then Some (sc_set sc SEndValue)
      else
        match ps with
        | PKey => if b =? 58 then Some (mkSc SBeginValue (PVal :: rest) (sc_depth sc) (sc_endtop sc)) else None
        | PVal => if b =? 44 then Some (mkSc SBeginString (PKey :: rest) (sc_depth sc) (sc_endtop sc))
                  else if b =? 125 then Some (sc_pop sc rest) else None
        | PArr => if b =? 44 then Some (sc_set sc SBeginValue)
                  else if b =? 93 then Some (sc_pop sc rest) else None
        end
  end.

(** stateBeginValue *)
Definition sc_begin_value (sc : scanner) (b : N) : option scanner :=
  if is_space b then Some sc
  else if b =? 123 then sc_push sc PKey SBeginStringOrEmpty
  else if b =? 91 then sc_push sc PArr SBeginValueOrEmpty
  else if b =? 34 then Some (sc_set sc SInString)
  else if b =? 45 then Some (sc_set sc SNeg)
  else if b =? 48 then Some (sc_set sc S0)
  else if b =? 116 then Some (sc_set sc ST)
  else if b =? 102 then Some (sc_set sc SF)
  else if b =? 110 then Some (sc_set sc SN)
  else if (49 <=? b) && (b <=? 57) then Some (sc_set sc S1)
  else None.

(** stateBeginString *)
Definition sc_begin_string (sc : scanner) (b : N) : option scanner :=
  if is_space b then Some sc
  else if b =? 34 then Some (sc_set sc SInString)
  else None.

Definition sc_expect (sc : scanner) (b want : N) (nxt : sstep) : option scanner :=
  if b =? want then Some (sc_set sc nxt) else None.

(** state0 (also the tail of state1) *)
Definition sc_state0 (sc : scanner) (b : N) : option scanner :=
  if b =? 46 then Some (sc_set sc SDot)
  else if (b =? 101) || (b =? 69) then Some (sc_set sc SE)
  else sc_end_value sc b.

Definition sc_esign (sc : scanner) (b : N) : option scanner :=
  if is_dig b then Some (sc_set sc SE0) else None.

(** one call [s.step(s, c)]; None = scanError *)
Definition sc_step_byte (sc : scanner) (b : N) : option scanner :=
  match sc_step sc with
  | SBeginValue => sc_begin_value sc b
  | SBeginValueOrEmpty =>
      if is_space b then Some sc
      else if b =? 93 then sc_end_value sc b
      else sc_begin_value sc b
  | SBeginStringOrEmpty =>
      if is_space b then Some sc
      else if b =? 125 then
        match sc_stack sc with
        | [] => None                                              (* not reachable: '{' pushed *)
        | _ :: rest => sc_end_value (mkSc (sc_step sc) (PVal :: rest) (sc_depth sc) (sc_endtop sc)) b
        end
      else sc_begin_string sc b
  | SBeginString => sc_begin_string sc b
  | SEndValue => sc_end_value sc b
  | SEndTop => if is_space b then Some sc else None
  | SInString =>
      if b =? 34 then Some (sc_set sc SEndValue)
      else if b =? 92 then Some (sc_set sc SInStringEsc)
      else if b <? 32 then None
      else Some sc
  | SInStringEsc =>
      if (b =? 98) || (b =? 102) || (b =? 110) || (b =? 114) || (b =? 116) || (b =? 92) || (b =? 47) || (b =? 34)
      then Some (sc_set sc SInString)
      else if b =? 117 then Some (sc_set sc SEscU)
      else None
  | SEscU => if is_hex b then Some (sc_set sc SEscU1) else None
  | SEscU1 => if is_hex b then Some (sc_set sc SEscU12) else None
  | SEscU12 => if is_hex b then Some (sc_set sc SEscU123) else None
  | SEscU123 => if is_hex b then Some (sc_set sc SInString) else None
  | SNeg => if b =? 48 then Some (sc_set sc S0)
            else if (49 <=? b) && (b <=? 57) then Some (sc_set sc S1) else None
  | S1 => if is_dig b then Some sc else sc_state0 sc b
  | S0 => sc_state0 sc b
  | SDot => if is_dig b then Some (sc_set sc SDot0) else None
  | SDot0 => if is_dig b then Some sc
             else if (b =? 101) || (b =? 69) then Some (sc_set sc SE)
             else sc_end_value sc b
  | SE => if (b =? 43) || (b =? 45) then Some (sc_set sc SESign) else sc_esign sc b
  | SESign => sc_esign sc b
  | SE0 => if is_dig b then Some sc else sc_end_value sc b
  | ST => sc_expect sc b 114 STr
  | STr => sc_expect sc b 117 STru
  | STru => sc_expect sc b 101 SEndValue
  | SF => sc_expect sc b 97 SFa
  | SFa => sc_expect sc b 108 SFal
  | SFal => sc_expect sc b 115 SFals
  | SFals => sc_expect sc b 101 SEndValue
  | SN => sc_expect sc b 117 SNu
  | SNu => sc_expect sc b 108 SNul
  | SNul => sc_expect sc b 108 SEndValue
  end.

Definition sc_init : scanner := mkSc SBeginValue [] 0 false.

Fixpoint sc_run (sc : scanner) (s : bytes) : option scanner :=
  match s with
  | [] => Some sc
  | c :: s' => match sc_step_byte sc (byteN c) with
               | None => None
               | Some sc' => sc_run sc' s'
               end
  end.

(** scanner.eof: feeds one space unless the top-level value is already complete *)
Definition sc_eof (sc : scanner) : bool :=
  if sc_endtop sc then true
  else match sc_step_byte sc 32 with
       | Some sc' => sc_endtop sc'
       | None => false
       end.

(** checkValid *)
Definition check_valid (s : bytes) : bool :=
  match sc_run sc_init s with
  | Some sc => sc_eof sc
  | None => false
  end.

(** * decode.go: string literals *)

Definition hexval (b : N) : option N :=
  if (48 <=? b) && (b <=? 57) then Some (b - 48)
  else if (97 <=? b) && (b <=? 102) then Some (b - 87)
  else if (65 <=? b) && (b <=? 70) then Some (b - 55)
  else None.

(** getu4: the rune of a leading backslash-u-XXXX, None for Go's -1 *)
Definition getu4 (s : bytes) : option N :=
  match s with
  | c0 :: c1 :: h0 :: h1 :: h2 :: h3 :: _ =>
      if (byteN c0 =? 92) && (byteN c1 =? 117) then
        match hexval (byteN h0), hexval (byteN h1), hexval (byteN h2), hexval (byteN h3) with
        | Some a, Some b, Some c, Some d => Some (((a * 16 + b) * 16 + c) * 16 + d)
        | _, _, _, _ => None
        end
      else None
  | _ => None
  end.

(** utf16.DecodeRune(r1, r2) with r2 possibly -1 (None) *)
Definition utf16_dec (r1 : N) (r2 : option N) : N :=
  match r2 with
  | Some r2 =>
      if (55296 <=? r1) && (r1 <? 56320) && (56320 <=? r2) && (r2 <? 57344)
      then (r1 - 55296) * 1024 + (r2 - 56320) + 65536
      else rune_error
  | None => rune_error
  end.

Definition omap {A B} (f : A -> B) (o : option A) : option B :=
  match o with Some a => Some (f a) | None => None end.

(** unquoteBytes on the bytes BETWEEN the quotes; None = (nil, false).  (The Go fast path that returns the
    input slice when nothing needs rewriting computes the same bytes as the general loop.)
    [skip]: bytes of the current escape / rune already consumed. *)
Fixpoint unq_go (skip : nat) (s : bytes) : option bytes :=
  match s with
  | [] => Some []
  | c :: s' =>
      match skip with
      | S k => unq_go k s'
      | O =>
          let b := byteN c in
          if b =? 92 then
            match s' with
            | [] => None
            | e :: _ =>
                let eb := byteN e in
                if (eb =? 34) || (eb =? 92) || (eb =? 47) || (eb =? 39) then omap (cons e) (unq_go 1 s')
                else if eb =? 98 then omap (cons (Nbyte 8)) (unq_go 1 s')
                else if eb =? 102 then omap (cons (Nbyte 12)) (unq_go 1 s')
                else if eb =? 110 then omap (cons (Nbyte 10)) (unq_go 1 s')
                else if eb =? 114 then omap (cons (Nbyte 13)) (unq_go 1 s')
                else if eb =? 116 then omap (cons (Nbyte 9)) (unq_go 1 s')
                else if eb =? 117 then
                  match getu4 s with
                  | None => None
                  | Some rr =>
                      if is_surrogate rr then
                        let dec := utf16_dec rr (getu4 (skipn 6 s)) in
                        if dec =? rune_error
                        then omap (app (enc_rune rune_error)) (unq_go 5 s')  (* invalid surrogate *)
                        else omap (app (enc_rune dec)) (unq_go 11 s')        (* valid pair: both consumed *)
                      else omap (app (enc_rune rr)) (unq_go 5 s')
                  end
                else None
            end
          else if (b =? 34) || (b <? 32) then None
          else if b <? 128 then omap (cons c) (unq_go 0 s')
          else let d := dec_rune s in omap (app (enc_rune (fst d))) (unq_go (snd d - 1) s')
      end
  end.

(** * fold.go *)

(** foldRune on a rune >= 0x80.  unicode.SimpleFold orbits that contain an ASCII letter: U+017F (long s)
    with S/s and U+212A (Kelvin sign) with K/k.  For every other non-ASCII rune the smallest orbit member
    is itself non-ASCII; the model keeps the rune (MODEL RESTRICTION: only whether the folded key equals
    one of the five all-ASCII folded field names matters; the harness record c35j_foldtab checks the
    Unicode-table fact against unicode.SimpleFold for all runes). *)
Definition fold_rune (r : N) : N :=
  if r =? 383 then 83 else if r =? 8490 then 75 else r.

(** foldName / appendFoldedName *)
Fixpoint fold_go (skip : nat) (s : bytes) : bytes :=
  match s with
  | [] => []
  | c :: s' =>
      match skip with
      | S k => fold_go k s'
      | O =>
          let b := byteN c in
          if b <? 128 then (if (97 <=? b) && (b <=? 122) then Nbyte (b - 32) else c) :: fold_go 0 s'
          else let d := dec_rune s in enc_rune (fold_rune (fst d)) ++ fold_go (snd d - 1) s'
      end
  end.
Definition fold_name (s : bytes) : bytes := fold_go 0 s.

Inductive jfield := FDenom | FAmount | FSender | FReceiver | FMemo.

(** object(): [fields.byExactName[key]], else [fields.byFoldedName[foldName(key)]] *)
Definition field_of_key (key : bytes) : option jfield :=
  if bytes_eqb key (B "denom") then Some FDenom
  else if bytes_eqb key (B "amount") then Some FAmount
  else if bytes_eqb key (B "sender") then Some FSender
  else if bytes_eqb key (B "receiver") then Some FReceiver
  else if bytes_eqb key (B "memo") then Some FMemo
  else
    let f := fold_name key in
    if bytes_eqb f (B "DENOM") then Some FDenom
    else if bytes_eqb f (B "AMOUNT") then Some FAmount
    else if bytes_eqb f (B "SENDER") then Some FSender
    else if bytes_eqb f (B "RECEIVER") then Some FReceiver
    else if bytes_eqb f (B "MEMO") then Some FMemo
    else None.

Definition set_field (x : JFTPD) (f : jfield) (v : bytes) : JFTPD :=
  match f with
  | FDenom => mkJFTPD v (j_amount x) (j_sender x) (j_receiver x) (j_memo x)
  | FAmount => mkJFTPD (j_denom x) v (j_sender x) (j_receiver x) (j_memo x)
  | FSender => mkJFTPD (j_denom x) (j_amount x) v (j_receiver x) (j_memo x)
  | FReceiver => mkJFTPD (j_denom x) (j_amount x) (j_sender x) v (j_memo x)
  | FMemo => mkJFTPD (j_denom x) (j_amount x) (j_sender x) (j_receiver x) v
  end.

(** * decode.go: the second pass *)

(** scanWhile(scanSkipSpace) *)
Fixpoint skip_ws (s : bytes) : bytes :=
  match s with
  | c :: s' => if is_space (byteN c) then skip_ws s' else s
  | [] => []
  end.

(** rescanLiteral after an opening quote: (bytes between the quotes, rest after the closing quote).
    A backslash skips the following byte.  None: no closing quote (not reachable after checkValid). *)
Fixpoint scan_string (esc : bool) (s : bytes) : option (bytes * bytes) :=
  match s with
  | [] => None
  | c :: s' =>
      if esc then omap (fun p => (c :: fst p, snd p)) (scan_string false s')
      else if byteN c =? 92 then omap (fun p => (c :: fst p, snd p)) (scan_string true s')
      else if byteN c =? 34 then Some ([], s')
      else omap (fun p => (c :: fst p, snd p)) (scan_string false s')
  end.

(** rescanLiteral on a number: skips the bytes 0-9 . e E + - *)
Definition is_num_byte (b : N) : bool :=
  is_dig b || (b =? 46) || (b =? 101) || (b =? 69) || (b =? 43) || (b =? 45).
Fixpoint skip_number (s : bytes) : bytes :=
  match s with
  | c :: s' => if is_num_byte (byteN c) then skip_number s' else s
  | [] => []
  end.

(** decodeState.skip: from just after an opening bracket ([depth] = 1) to just after the bracket that
    closes it.  The scanner drives it in Go; on input that passed checkValid, counting brackets outside
    string literals finds the same position.  None: input ends first (not reachable after checkValid). *)
Fixpoint skip_nested (depth : N) (instr esc : bool) (s : bytes) : option bytes :=
  match s with
  | [] => None
  | c :: s' =>
      let b := byteN c in
      if instr then
        if esc then skip_nested depth true false s'
        else if b =? 92 then skip_nested depth true true s'
        else if b =? 34 then skip_nested depth false false s'
        else skip_nested depth true false s'
      else if b =? 34 then skip_nested depth true false s'
      else if (b =? 123) || (b =? 91) then skip_nested (depth + 1) false false s'
      else if (b =? 125) || (b =? 93) then
        (if depth =? 1 then Some s' else skip_nested (depth - 1) false false s')
      else skip_nested depth false false s'
  end.

(** Outcome of json.Unmarshal(bz, &data):
    [JOk x]   nil error, data still holds the *FungibleTokenPacketData, now equal to x;
    [JNil]    nil error and data == nil: a top-level JSON null zeroes the INTERFACE (indirect(v, true)
              stops at the settable interface value, literalStore calls v.SetZero()); UnmarshalPacketData
              then fails its type assertion and returns an error;
    [JErr]    a SyntaxError from checkValid, or the error UnmarshalJSON returned (unknown field,
              UnmarshalTypeError);
    [JPanic]  a panic(phasePanicMsg) site of decode.go;
    [JOutOfFuel] the member loop ran out of fuel (excluded by JsonFacts.json_unmarshal_fuel_ok). *)
Inductive jres := JOk (x : JFTPD) | JNil | JErr | JPanic | JOutOfFuel.

Definition jfinish (x : JFTPD) (saved : bool) : jres := if saved then JErr else JOk x.

(** d.value(subv) for one member: [f] the struct field the key selected (None: subv invalid, the value is
    discarded), [v] the first byte of the value, [r5] the bytes after it.
    Result (x', saved', rest after the value); None = a panic(phasePanicMsg) site. *)
Definition obj_value (f : option jfield) (x : JFTPD) (saved : bool) (vb : N) (r5 : bytes)
  : option (JFTPD * bool * bytes) :=
  let mism := match f with Some _ => true | None => saved end in   (* saveError(UnmarshalTypeError) *)
  if vb =? 34 then                                                   (* string literal *)
    match scan_string false r5 with
    | None => None
    | Some (raw, r6) =>
        match f with
        | None => Some (x, saved, r6)                                (* !v.IsValid(): discarded *)
        | Some fld =>
            match unq_go 0 raw with
            | None => None
            | Some str => Some (set_field x fld str, saved, r6)
            end
        end
    end
  else if (vb =? 123) || (vb =? 91) then                             (* object / array: d.skip() *)
    match skip_nested 1 false false r5 with
    | None => None
    | Some r6 => Some (x, mism, r6)
    end
  else if vb =? 110 then Some (x, saved, skipn 3 r5)                 (* null: no effect on a string *)
  else if vb =? 116 then Some (x, mism, skipn 3 r5)                  (* true *)
  else if vb =? 102 then Some (x, mism, skipn 4 r5)                  (* false *)
  else if (vb =? 45) || is_dig vb then Some (x, mism, skip_number r5)
  else None.                                                         (* d.value default: panic *)

Inductive mstep := MDone (r : jres) | MNext (x : JFTPD) (saved : bool) (rest : bytes).

(** one iteration of the [for] loop of decodeState.object over the members of the top-level object,
    decoding into the struct; [s] starts where the next key (or, when [first], the closing brace) is
    expected. *)
Definition obj_member (first : bool) (x : JFTPD) (saved : bool) (s : bytes) : mstep :=
  match skip_ws s with
  | [] => MDone JPanic
  | c :: r =>
      if first && (byteN c =? 125) then MDone (jfinish x saved)        (* scanEndObject on the first iteration *)
      else if negb (byteN c =? 34) then MDone JPanic                   (* d.opcode != scanBeginLiteral *)
      else
        match scan_string false r with
        | None => MDone JPanic
        | Some (rawkey, r1) =>
            match unq_go 0 rawkey with
            | None => MDone JPanic                                     (* unquoteBytes(item) !ok *)
            | Some key =>
                let f := field_of_key key in
                (* disallowUnknownFields: d.saveError("json: unknown field ...") *)
                let saved := match f with Some _ => saved | None => true end in
                match skip_ws r1 with
                | [] => MDone JPanic
                | colon :: r3 =>
                    if negb (byteN colon =? 58) then MDone JPanic      (* d.opcode != scanObjectKey *)
                    else
                      match skip_ws r3 with
                      | [] => MDone JPanic
                      | v :: r5 =>
                          match obj_value f x saved (byteN v) r5 with
                          | None => MDone JPanic
                          | Some (x', saved', r6) =>
                              match skip_ws r6 with
                              | [] => MDone JPanic
                              | sep :: r8 =>
                                  if byteN sep =? 125 then MDone (jfinish x' saved')   (* scanEndObject *)
                                  else if byteN sep =? 44 then MNext x' saved' r8        (* scanObjectValue *)
                                  else MDone JPanic
                              end
                          end
                      end
                end
            end
        end
  end.

Fixpoint obj_loop (fuel : nat) (first : bool) (x : JFTPD) (saved : bool) (s : bytes) : jres :=
  match fuel with
  | O => JOutOfFuel
  | S fuel' =>
      match obj_member first x saved s with
      | MDone r => r
      | MNext x' saved' r8 => obj_loop fuel' false x' saved' r8
      end
  end.

Definition jempty : JFTPD := mkJFTPD [] [] [] [] [].

(** json.Unmarshal(bz, &data), data holding a pointer to the zero struct.  [obj_loop] is the inner
    Decode(&alias) of UnmarshalJSON on the bytes of the top-level object (the rest of the input is
    white space, checked by checkValid). *)
Definition json_unmarshal_ftpd (bz : bytes) : jres :=
  if negb (check_valid bz) then JErr
  else
    match skip_ws bz with
    | [] => JPanic
    | c :: r =>
        let b := byteN c in
        if b =? 123 then obj_loop (length bz) true jempty false r
        else if b =? 110 then JNil          (* null: data = nil *)
        else JErr                           (* array / string / number / bool: UnmarshalJSON -> UnmarshalTypeError *)
    end.
