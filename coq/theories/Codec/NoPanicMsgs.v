(** C47 — models of the ValidateBasic methods of channel v1 / channel v2 / client messages.
    Library calls are inputs: [signer_ok] = (sdk.AccAddressFromBech32(msg.Signer) succeeded); light-client
    methods reached through an Any ([ClientState.Validate], [ConsensusState.ValidateBasic],
    [ClientMessage.ValidateBasic], [Plan.ValidateBasic]) are inputs of type [res unit] — they are
    implementation code of the light clients and may return, fail or panic.
    In the .pb.go structs Channel, Counterparty, Packet, Height, Payload, Acknowledgement(v2) are VALUE
    fields; the only nullable sub-messages are the *types.Any fields of the client messages.
    Definitions only; proofs in NoPanicMsgsFacts.v. *)
From IBC Require Import Lib.Bytes Lib.Dec Core.Height Codec.NoPanicBase.
Local Open Scope N_scope.

(** ---------------------------------------------------------------- 04-channel/types *)
Record Counterparty := mkCp { cp_port : bytes; cp_chan : bytes }.
Record Channel := mkChan { ch_state : N; ch_ordering : N; ch_cp : Counterparty; ch_hops : list bytes }.
Record Packet := mkPkt { p_seq : N; p_sport : bytes; p_schan : bytes; p_dport : bytes; p_dchan : bytes;
                         p_data : bytes; p_theight : Height; p_tts : N }.

(** Counterparty.ValidateBasic *)
Definition counterparty_validate_basic (c : Counterparty) : res unit :=
  do _ <- port_identifier_validator (cp_port c);
  if negb (bytes_eqb (cp_chan c) []) then channel_identifier_validator (cp_chan c) else Ok tt.

(** Channel.ValidateBasic: state UNINITIALIZED=0; ordering must be UNORDERED=1 or ORDERED=2;
    exactly one hop, then ConnectionHops[0] *)
Definition channel_validate_basic (ch : Channel) : res unit :=
  if ch_state ch =? 0 then Err
  else if negb ((ch_ordering ch =? 2) || (ch_ordering ch =? 1)) then Err
  else if negb (zlen (ch_hops ch) =? 1)%Z then Err
  else
    do h0 <- idx (ch_hops ch) 0;
    do _ <- connection_identifier_validator h0;
    counterparty_validate_basic (ch_cp ch).

(** Packet.ValidateBasic *)
Definition packet_validate_basic (p : Packet) : res unit :=
  do _ <- port_identifier_validator (p_sport p);
  do _ <- port_identifier_validator (p_dport p);
  do _ <- channel_identifier_validator (p_schan p);
  do _ <- channel_identifier_validator (p_dchan p);
  if p_seq p =? 0 then Err
  else if h_is_zero (p_theight p) && (p_tts p =? 0) then Err
  else if nlen (p_data p) =? 0 then Err
  else if 262144 <? nlen (p_data p) then Err
  else Ok tt.

Definition signer_check (signer_ok : bool) : res unit := if signer_ok then Ok tt else Err.
Definition nonempty_check (b : bytes) : res unit := if nlen b =? 0 then Err else Ok tt.
(** !IsValidChannelID(id) -> error *)
Definition valid_channel_id_check (id : bytes) : res unit :=
  do b <- is_valid_channel_id id; if b then Ok tt else Err.

Inductive MsgV1 :=
| ChanOpenInit (port : bytes) (ch : Channel) (signer_ok : bool)
| ChanOpenTry (port prev : bytes) (ch : Channel) (proof_init : bytes) (signer_ok : bool)
| ChanOpenAck (port chan cp_chan proof_try : bytes) (signer_ok : bool)
| ChanOpenConfirm (port chan proof_ack : bytes) (signer_ok : bool)
| ChanCloseInit (port chan : bytes) (signer_ok : bool)
| ChanCloseConfirm (port chan proof_init : bytes) (signer_ok : bool)
| RecvPacket (p : Packet) (proof : bytes) (signer_ok : bool)
| TimeoutMsg (p : Packet) (proof : bytes) (next_seq : N) (signer_ok : bool)
| TimeoutOnClose (p : Packet) (proof proof_close : bytes) (next_seq : N) (signer_ok : bool)
| AckMsg (p : Packet) (ack proof : bytes) (signer_ok : bool).

(** 04-channel/types/msgs.go, each in the order of the Go checks *)
Definition msg_v1_validate_basic (m : MsgV1) : res unit :=
  match m with
  | ChanOpenInit port ch sg =>
      do _ <- port_identifier_validator port;
      if negb (ch_state ch =? 1) then Err
      else if negb (bytes_eqb (cp_chan (ch_cp ch)) []) then Err
      else do _ <- signer_check sg; channel_validate_basic ch
  | ChanOpenTry port prev ch proof sg =>
      do _ <- port_identifier_validator port;
      if negb (bytes_eqb prev []) then Err
      else do _ <- nonempty_check proof;
           if negb (ch_state ch =? 2) then Err
           else do _ <- channel_identifier_validator (cp_chan (ch_cp ch));
                do _ <- signer_check sg; channel_validate_basic ch
  | ChanOpenAck port chan cpc proof sg =>
      do _ <- port_identifier_validator port;
      do _ <- valid_channel_id_check chan;
      do _ <- channel_identifier_validator cpc;
      do _ <- nonempty_check proof;
      signer_check sg
  | ChanOpenConfirm port chan proof sg =>
      do _ <- port_identifier_validator port;
      do _ <- valid_channel_id_check chan;
      do _ <- nonempty_check proof;
      signer_check sg
  | ChanCloseInit port chan sg =>
      do _ <- port_identifier_validator port;
      do _ <- valid_channel_id_check chan;
      signer_check sg
  | ChanCloseConfirm port chan proof sg =>
      do _ <- port_identifier_validator port;
      do _ <- valid_channel_id_check chan;
      do _ <- nonempty_check proof;
      signer_check sg
  | RecvPacket p proof sg =>
      do _ <- nonempty_check proof; do _ <- signer_check sg; packet_validate_basic p
  | TimeoutMsg p proof ns sg =>
      do _ <- nonempty_check proof;
      if ns =? 0 then Err else do _ <- signer_check sg; packet_validate_basic p
  | TimeoutOnClose p proof pc ns sg =>
      if ns =? 0 then Err
      else do _ <- nonempty_check proof; do _ <- nonempty_check pc; do _ <- signer_check sg; packet_validate_basic p
  | AckMsg p ack proof sg =>
      do _ <- nonempty_check proof; do _ <- nonempty_check ack; do _ <- signer_check sg; packet_validate_basic p
  end.

(** ---------------------------------------------------------------- 04-channel/v2/types *)
Record Payload := mkPl { pl_sport : bytes; pl_dport : bytes; pl_version : bytes; pl_encoding : bytes; pl_value : bytes }.
Record PacketV2 := mkPkt2 { p2_seq : N; p2_sclient : bytes; p2_dclient : bytes; p2_tts : N; p2_payloads : list Payload }.

Definition payload_validate_basic (p : Payload) : res unit :=
  do _ <- port_identifier_validator (pl_sport p);
  do _ <- port_identifier_validator (pl_dport p);
  if go_blank (pl_version p) then Err
  else if go_blank (pl_encoding p) then Err
  else if nlen (pl_value p) =? 0 then Err
  else Ok tt.

(** the loop of Packet.ValidateBasic: validates each payload and sums len(pd.Value) *)
Fixpoint payloads_validate (ps : list Payload) (total : N) : res N :=
  match ps with
  | [] => Ok total
  | p :: ps' => do _ <- payload_validate_basic p; payloads_validate ps' (total + nlen (pl_value p))
  end.

Definition packet_v2_validate_basic (p : PacketV2) : res unit :=
  if (zlen (p2_payloads p) =? 0)%Z then Err
  else
    do total <- payloads_validate (p2_payloads p) 0;
    if 262144 <? total then Err
    else
      do _ <- channel_identifier_validator (p2_sclient p);
      do _ <- channel_identifier_validator (p2_dclient p);
      if p2_seq p =? 0 then Err
      else if p2_tts p =? 0 then Err
      else Ok tt.

(** v2 Acknowledgement.Validate; ErrorAcknowledgement = sha256("UNIVERSAL_ERROR_ACKNOWLEDGEMENT") is passed in *)
Fixpoint app_acks_validate (universal_err : bytes) (multi : bool) (acks : list bytes) : res unit :=
  match acks with
  | [] => Ok tt
  | a :: r =>
      if nlen a =? 0 then Err
      else if multi && bytes_eqb a universal_err then Err
      else app_acks_validate universal_err multi r
  end.
Definition ack_v2_validate (universal_err : bytes) (acks : list bytes) : res unit :=
  if (zlen acks =? 0)%Z then Err
  else app_acks_validate universal_err (1 <? zlen acks)%Z acks.

Inductive MsgV2 :=
| SendPacket2 (sclient : bytes) (tts : N) (payloads : list Payload) (signer_ok : bool)
| RecvPacket2 (p : PacketV2) (proof : bytes) (signer_ok : bool)
| AckMsg2 (p : PacketV2) (acks : list bytes) (proof : bytes) (signer_ok : bool)
| TimeoutMsg2 (p : PacketV2) (proof : bytes) (signer_ok : bool).

Fixpoint payloads_each (ps : list Payload) : res unit :=
  match ps with
  | [] => Ok tt
  | p :: ps' => do _ <- payload_validate_basic p; payloads_each ps'
  end.

Definition msg_v2_validate_basic (universal_err : bytes) (m : MsgV2) : res unit :=
  match m with
  | SendPacket2 sc tts pls sg =>
      do _ <- client_identifier_validator sc;
      if tts =? 0 then Err
      else if (zlen pls =? 0)%Z then Err
      else do _ <- payloads_each pls; signer_check sg
  | RecvPacket2 p proof sg =>
      do _ <- nonempty_check proof; do _ <- signer_check sg; packet_v2_validate_basic p
  | AckMsg2 p acks proof sg =>
      do _ <- nonempty_check proof; do _ <- ack_v2_validate universal_err acks;
      do _ <- signer_check sg; packet_v2_validate_basic p
  | TimeoutMsg2 p proof sg =>
      do _ <- nonempty_check proof; do _ <- signer_check sg; packet_v2_validate_basic p
  end.

(** ---------------------------------------------------------------- 02-client/types/msgs.go *)
(** a *types.Any field: nil pointer, or a value with its [Value] length and what GetCachedValue() holds *)
Inductive AnyCached (A : Type) :=
| CNone                 (* no cached value / a value of another interface: the checked assertion fails *)
| CVal (a : A).
Arguments CNone {A}.
Arguments CVal {A} a.
Inductive AnyP (A : Type) :=
| AnyNil
| AnyVal (value_len : N) (c : AnyCached A).
Arguments AnyNil {A}.
Arguments AnyVal {A} value_len c.

(** Go [msg.X.Value] on a *Any: nil pointer dereference when the field is nil *)
Definition any_value_len {A} (a : AnyP A) : res N :=
  match a with AnyNil => Panic | AnyVal n _ => Ok n end.
(** Go [a != nil && len(a.Value) > max]: the dereference sits behind the nil test (fix e3d0037; before it
    MsgCreateClient read [len(msg.ClientState.Value)] unconditionally) *)
Definition any_too_large {A} (a : AnyP A) (max : N) : res bool :=
  match a with
  | AnyNil => Ok false
  | _ => do n <- any_value_len a; Ok (max <? n)
  end.
(** UnpackClientState / UnpackConsensusState / UnpackClientMessage: nil check, then checked assertion *)
Definition unpack {A} (a : AnyP A) : res A :=
  match a with
  | AnyNil => Err
  | AnyVal _ CNone => Err
  | AnyVal _ (CVal x) => Ok x
  end.

(** what the message uses of an unpacked client state / consensus state *)
Record CState := mkCS { cs_type : bytes; cs_validate : res unit }.

(** ValidateClientType *)
Definition max_u64_dec : bytes := B "18446744073709551615".
Definition validate_client_type (clientType : bytes) : res unit :=
  if go_blank clientType then Err
  else
    let smallest := clientType ++ dash :: B "0" in
    let largest := clientType ++ dash :: max_u64_dec in
    do v <- is_valid_client_id smallest;
    if negb v then Err
    else do _ <- client_identifier_validator smallest;
         client_identifier_validator largest.

Inductive MsgClient :=
| CreateClient (signer_ok : bool) (client_state consensus_state : AnyP CState)
| UpdateClient (signer_ok : bool) (client_message : AnyP (res unit)) (client_id : bytes)
| UpgradeClient (client_state consensus_state : AnyP CState) (proof_client proof_cons : bytes)
                (signer_ok : bool) (client_id : bytes)
| RecoverClient (signer_ok : bool) (subject substitute : bytes)
| IBCSoftwareUpgrade (signer_ok : bool) (upgraded : AnyP CState) (plan_validate : res unit)
| DeleteClientCreator (signer_ok : bool) (client_id : bytes).

Definition msg_client_validate_basic (m : MsgClient) : res unit :=
  match m with
  | CreateClient sg cs cst =>
      do _ <- signer_check sg;
      do big <- any_too_large cs 32768;            (* msg.ClientState != nil && len(msg.ClientState.Value) > Max *)
      if big then Err
      else
        do clientState <- unpack cs;                 (* a nil Any is rejected here *)
        do _ <- cs_validate clientState;
        do big2 <- any_too_large cst 32768;
        if big2 then Err
        else
          do consensusState <- unpack cst;
          if negb (bytes_eqb (cs_type clientState) (cs_type consensusState)) then Err
          else do _ <- validate_client_type (cs_type clientState);
               cs_validate consensusState
  | UpdateClient sg cm cid =>
      do _ <- signer_check sg;
      do clientMsg <- unpack cm;
      do _ <- clientMsg;
      client_identifier_validator cid
  | UpgradeClient cs cst pc pcs sg cid =>
      do clientState <- unpack cs;
      do consensusState <- unpack cst;
      if negb (bytes_eqb (cs_type clientState) (cs_type consensusState)) then Err
      else do _ <- nonempty_check pc; do _ <- nonempty_check pcs; do _ <- signer_check sg;
           client_identifier_validator cid
  | RecoverClient sg subject substitute =>
      do _ <- signer_check sg;
      do _ <- client_identifier_validator subject;
      do _ <- client_identifier_validator substitute;
      if bytes_eqb subject substitute then Err else Ok tt
  | IBCSoftwareUpgrade sg up plan =>
      do _ <- signer_check sg;
      do clientState <- unpack up;
      if negb (bytes_eqb (cs_type clientState) (B "07-tendermint")) then Err
      else plan
  | DeleteClientCreator sg cid =>
      do _ <- signer_check sg;
      do _ <- client_identifier_validator cid;
      do v <- is_valid_client_id cid;
      if v then Ok tt else Err
  end.

(** ---------------------------------------------------------------- 06-solomachine/misbehaviour.go *)
Record SigData := mkSD { sd_sig : bytes; sd_data : bytes; sd_path : bytes; sd_ts : N }.
(** SignatureAndData.ValidateBasic *)
Definition sig_data_validate_basic (sd : SigData) : res unit :=
  if nlen (sd_sig sd) =? 0 then Err
  else if nlen (sd_data sd) =? 0 then Err
  else if nlen (sd_path sd) =? 0 then Err
  else if sd_ts sd =? 0 then Err
  else Ok tt.
Definition ptr_deref {A} (p : option A) : res A := match p with Some a => Ok a | None => Panic end.
Definition is_nil {A} (p : option A) : bool := match p with None => true | Some _ => false end.
(** Misbehaviour.ValidateBasic: SignatureOne / SignatureTwo are pointers (nullable); the nil test was added
    by fix 6331512 *)
Definition solo_misbehaviour_validate_basic (seq : N) (s1 s2 : option SigData) : res unit :=
  if seq =? 0 then Err
  else if is_nil s1 || is_nil s2 then Err
  else
    do a <- ptr_deref s1; do _ <- sig_data_validate_basic a;
    do b <- ptr_deref s2; do _ <- sig_data_validate_basic b;
    if bytes_eqb (sd_sig a) (sd_sig b) then Err
    else if bytes_eqb (sd_path a) (sd_path b) && bytes_eqb (sd_data a) (sd_data b) then Err
    else Ok tt.

(** the Any fields a message dereferences without a nil check (none since fix e3d0037) *)
Definition msg_client_derefs_ok (m : MsgClient) : bool :=
  match m with
  | CreateClient _ cs cst =>
      match cs, cst with
      | AnyNil, _ => false
      | _, AnyNil => false
      | _, _ => true
      end
  | _ => true
  end.
(** the light-client methods the message calls return normally *)
Definition res_safe {A} (r : res A) : bool := match r with Ok _ | Err => true | _ => false end.
Definition any_safe (a : AnyP CState) : bool :=
  match a with AnyVal _ (CVal c) => res_safe (cs_validate c) | _ => true end.
Definition msg_client_externals_safe (m : MsgClient) : bool :=
  match m with
  | CreateClient _ cs cst => any_safe cs && any_safe cst
  | UpdateClient _ (AnyVal _ (CVal r)) _ => res_safe r
  | IBCSoftwareUpgrade _ _ plan => res_safe plan
  | _ => true
  end.
