From Coq Require Import DecimalString DecimalN DecimalFacts Decimal DecimalPos.
From IBC Require Import Lib.Bytes Lib.Dec.

Lemma to_uint_nonnil n : N.to_uint n <> Nil.
Proof.
  destruct n as [|p]; simpl; [discriminate|].
  apply Unsigned.to_uint_nonnil.
Qed.

Lemma parse_dec n : (n < two64)%N -> parse_uint64 (dec n) = Some n.
Proof.
  intros Hn. unfold parse_uint64, dec.
  rewrite string_of_list_ascii_of_string.
  rewrite NilZero.usu by apply to_uint_nonnil.
  rewrite DecimalN.Unsigned.of_to.
  apply N.ltb_lt in Hn. now rewrite Hn.
Qed.

Lemma parse_bound s n : parse_uint64 s = Some n -> (n < two64)%N.
Proof.
  unfold parse_uint64.
  destruct (NilZero.uint_of_string _) as [d|]; [|discriminate].
  destruct (N.ltb_spec (N.of_uint d) two64); [|discriminate].
  now intros [= <-].
Qed.

Lemma dec_inj n m : dec n = dec m -> n = m.
Proof.
  unfold dec. intros H.
  apply (f_equal string_of_list_ascii) in H.
  rewrite !string_of_list_ascii_of_string in H.
  assert (Hn := to_uint_nonnil n). assert (Hm := to_uint_nonnil m).
  assert (NilZero.uint_of_string (NilZero.string_of_uint (N.to_uint n)) =
          NilZero.uint_of_string (NilZero.string_of_uint (N.to_uint m))) as E by now rewrite H.
  rewrite !NilZero.usu in E by assumption.
  injection E as E. now apply DecimalN.Unsigned.to_uint_inj.
Qed.

(** every character printed is a digit, and something is printed *)
Lemma nilempty_digits d : forallb is_digit (list_ascii_of_string (NilEmpty.string_of_uint d)) = true.
Proof. induction d; simpl; auto. Qed.

Lemma dec_digits n : forallb is_digit (dec n) = true.
Proof.
  unfold dec. destruct (N.to_uint n); try apply (nilempty_digits (_ _)); reflexivity.
Qed.

Lemma dec_nonempty n : dec n <> [].
Proof.
  unfold dec. assert (H := to_uint_nonnil n).
  destruct (N.to_uint n); simpl; congruence.
Qed.

Lemma dec_all_digits n : all_digits (dec n) = true.
Proof.
  unfold all_digits. assert (H := dec_nonempty n). assert (D := dec_digits n).
  destruct (dec n); congruence.
Qed.

(** parse accepts only digit strings *)
Lemma uint_of_char_digit a o d : uint_of_char a o = Some d -> is_digit a = true.
Proof.
  intros H. destruct o as [d'|]; [|destruct a as [[] [] [] [] [] [] [] []]; discriminate].
  apply uint_of_char_spec in H.
  repeat (destruct H as [[-> _]|H]; [reflexivity|]). destruct H as [-> _]; reflexivity.
Qed.

Lemma nilempty_parse_digits s d :
  NilEmpty.uint_of_string s = Some d -> forallb is_digit (list_ascii_of_string s) = true.
Proof.
  revert d; induction s as [|a s IH]; simpl; intros d H; [reflexivity|].
  destruct (NilEmpty.uint_of_string s) as [d'|] eqn:E.
  - rewrite (uint_of_char_digit _ _ _ H), (IH _ eq_refl). reflexivity.
  - destruct a as [[] [] [] [] [] [] [] []]; discriminate.
Qed.

Lemma parse_all_digits s n : parse_uint64 s = Some n -> all_digits s = true.
Proof.
  unfold parse_uint64, NilZero.uint_of_string.
  destruct (string_of_list_ascii s) eqn:E; [discriminate|].
  destruct (NilEmpty.uint_of_string (String a s0)) eqn:P; [|discriminate].
  intros _. apply nilempty_parse_digits in P.
  rewrite <- E, list_ascii_of_string_of_list_ascii in P.
  unfold all_digits. destruct s; [discriminate|exact P].
Qed.
