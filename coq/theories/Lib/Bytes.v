(** Byte strings.  A Go [string]/[[]byte] is a [list ascii].  *)
From Coq Require Export Ascii String.
From Coq Require Export List NArith ZArith Bool Lia.
Export ListNotations.

Definition bytes := list ascii.

(** literal: [B "abc"] *)
Definition B (s : string) : bytes := list_ascii_of_string s.

Definition ascii_eqb := Ascii.eqb.

Fixpoint bytes_eqb (a b : bytes) : bool :=
  match a, b with
  | [], [] => true
  | x :: a', y :: b' => Ascii.eqb x y && bytes_eqb a' b'
  | _, _ => false
  end.

Fixpoint is_prefix (p s : bytes) : bool :=
  match p, s with
  | [], _ => true
  | x :: p', y :: s' => Ascii.eqb x y && is_prefix p' s'
  | _ :: _, [] => false
  end.

Definition is_suffix (p s : bytes) : bool := is_prefix (rev p) (rev s).

(** [strip_prefix p s] = Some rest  iff  s = p ++ rest  (strings.CutPrefix / TrimPrefix when present) *)
Fixpoint strip_prefix (p s : bytes) : option bytes :=
  match p, s with
  | [], _ => Some s
  | x :: p', y :: s' => if Ascii.eqb x y then strip_prefix p' s' else None
  | _ :: _, [] => None
  end.

(** strings.Contains *)
Fixpoint contains (sub s : bytes) : bool :=
  is_prefix sub s ||
  match s with
  | [] => false
  | _ :: s' => contains sub s'
  end.

(** strings.Split(s, sep) for a single-byte separator: never returns the empty list. *)
Fixpoint split_on (sep : ascii) (s : bytes) : list bytes :=
  match s with
  | [] => [[]]
  | c :: s' =>
      if Ascii.eqb c sep then [] :: split_on sep s'
      else match split_on sep s' with
           | [] => [[c]]          (* unreachable *)
           | h :: t => (c :: h) :: t
           end
  end.

(** strings.Join(parts, sep) for a single-byte separator *)
Fixpoint join_with (sep : ascii) (parts : list bytes) : bytes :=
  match parts with
  | [] => []
  | [p] => p
  | p :: ps => p ++ sep :: join_with sep ps
  end.

(** hex *)
Definition hex_digit_val (c : ascii) : option N :=
  let n := N_of_ascii c in
  if (48 <=? n)%N && (n <=? 57)%N then Some (n - 48)%N
  else if (97 <=? n)%N && (n <=? 102)%N then Some (n - 87)%N
  else if (65 <=? n)%N && (n <=? 70)%N then Some (n - 55)%N
  else None.

Fixpoint unhex_l (s : bytes) : bytes :=
  match s with
  | a :: b :: s' =>
      match hex_digit_val a, hex_digit_val b with
      | Some x, Some y => ascii_of_N (16 * x + y) :: unhex_l s'
      | _, _ => []
      end
  | _ => []
  end.

(** [hx "616263"] = [B "abc"]; used by the generated correspondence cases *)
Definition hx (s : string) : bytes := unhex_l (list_ascii_of_string s).

Definition hex_char_lower (n : N) : ascii :=
  if (n <? 10)%N then ascii_of_N (48 + n) else ascii_of_N (87 + n).
Definition hex_char_upper (n : N) : ascii :=
  if (n <? 10)%N then ascii_of_N (48 + n) else ascii_of_N (55 + n).

Fixpoint hex_upper (s : bytes) : bytes :=
  match s with
  | [] => []
  | c :: s' => let n := N_of_ascii c in
               hex_char_upper (n / 16) :: hex_char_upper (n mod 16) :: hex_upper s'
  end.
Fixpoint hex_lower (s : bytes) : bytes :=
  match s with
  | [] => []
  | c :: s' => let n := N_of_ascii c in
               hex_char_lower (n / 16) :: hex_char_lower (n mod 16) :: hex_lower s'
  end.

Definition byteN (c : ascii) : N := N_of_ascii c.
Definition Nbyte (n : N) : ascii := ascii_of_N (n mod 256).

(** character classes *)
Definition is_digit (c : ascii) : bool := let n := N_of_ascii c in (48 <=? n)%N && (n <=? 57)%N.
Definition is_lower (c : ascii) : bool := let n := N_of_ascii c in (97 <=? n)%N && (n <=? 122)%N.
Definition is_upper (c : ascii) : bool := let n := N_of_ascii c in (65 <=? n)%N && (n <=? 90)%N.
Definition is_alpha (c : ascii) : bool := is_lower c || is_upper c.
Definition is_alnum (c : ascii) : bool := is_alpha c || is_digit c.

Definition slash : ascii := "/"%char.
Definition dash : ascii := "-"%char.
