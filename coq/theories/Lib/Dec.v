(** Decimal printing (fmt "%d", strconv.FormatUint) and parsing (strconv.ParseUint(s, 10, 64)). *)
From Coq Require Import DecimalString DecimalN DecimalFacts Decimal.
From IBC Require Import Lib.Bytes.

Definition two64 : N := 18446744073709551616%N.

(** fmt.Sprintf("%d", n) for an unsigned n *)
Definition dec (n : N) : bytes :=
  list_ascii_of_string (NilZero.string_of_uint (N.to_uint n)).

(** strconv.ParseUint(s, 10, 64): non-empty, digits only (no sign, no underscore),
    leading zeros allowed, value must fit in 64 bits. *)
Definition parse_uint64 (s : bytes) : option N :=
  match NilZero.uint_of_string (string_of_list_ascii s) with
  | Some d => let n := N.of_uint d in if (n <? two64)%N then Some n else None
  | None => None
  end.

(** all-digits and non-empty *)
Definition all_digits (s : bytes) : bool :=
  match s with [] => false | _ => forallb is_digit s end.
