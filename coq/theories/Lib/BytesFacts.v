From IBC Require Import Lib.Bytes.

Lemma ascii_eqb_refl c : Ascii.eqb c c = true.
Proof. apply Ascii.eqb_refl. Qed.

Lemma bytes_eqb_eq a b : bytes_eqb a b = true <-> a = b.
Proof.
  revert b; induction a as [|x a IH]; destruct b as [|y b]; simpl; split; try congruence; auto.
  - intros H. apply andb_true_iff in H as [H1 H2]. apply Ascii.eqb_eq in H1. apply IH in H2. congruence.
  - intros [= -> ->]. rewrite Ascii.eqb_refl. now apply IH.
Qed.

Lemma bytes_eqb_refl a : bytes_eqb a a = true.
Proof. now apply bytes_eqb_eq. Qed.

Lemma bytes_eqb_neq a b : bytes_eqb a b = false <-> a <> b.
Proof.
  split.
  - intros H E. apply bytes_eqb_eq in E. congruence.
  - intros H. destruct (bytes_eqb a b) eqn:E; [apply bytes_eqb_eq in E; contradiction|reflexivity].
Qed.

Lemma bytes_eq_dec (a b : bytes) : {a = b} + {a <> b}.
Proof. apply list_eq_dec, ascii_dec. Qed.

Lemma is_prefix_app p s : is_prefix p (p ++ s) = true.
Proof. induction p; simpl; auto. now rewrite Ascii.eqb_refl. Qed.

Lemma is_prefix_spec p s : is_prefix p s = true <-> exists r, s = p ++ r.
Proof.
  revert s; induction p as [|x p IH]; intros s; simpl.
  - split; eauto.
  - destruct s as [|y s]; [split; [discriminate|intros [r [=]]]|].
    rewrite andb_true_iff, Ascii.eqb_eq, IH. split.
    + intros [-> [r ->]]. eauto.
    + intros [r [= -> ->]]. eauto.
Qed.

Lemma strip_prefix_spec p s r : strip_prefix p s = Some r <-> s = p ++ r.
Proof.
  revert s; induction p as [|x p IH]; intros s; simpl.
  - split; [intros [= ->]|intros ->]; reflexivity.
  - destruct s as [|y s]; [split; discriminate|].
    destruct (Ascii.eqb_spec x y) as [->|N].
    + rewrite IH. split; [intros ->|intros [= ->]]; reflexivity.
    + split; [discriminate|intros [= -> ->]; contradiction].
Qed.

Lemma strip_prefix_app p r : strip_prefix p (p ++ r) = Some r.
Proof. now apply strip_prefix_spec. Qed.

(** ** split / join with a one-byte separator *)

Lemma split_on_nonempty sep s : split_on sep s <> [].
Proof.
  induction s as [|c s IH]; simpl; [discriminate|].
  destruct (Ascii.eqb c sep); [discriminate|]. destruct (split_on sep s); [contradiction|discriminate].
Qed.

Lemma split_on_nosep sep s : ~ In sep s -> split_on sep s = [s].
Proof.
  induction s as [|c s IH]; simpl; intros H; [reflexivity|].
  destruct (Ascii.eqb_spec c sep) as [->|N]; [exfalso; auto|].
  rewrite IH by tauto. reflexivity.
Qed.

Lemma split_on_app sep a b : ~ In sep a -> split_on sep (a ++ sep :: b) = a :: split_on sep b.
Proof.
  induction a as [|c a IH]; simpl; intros H.
  - now rewrite Ascii.eqb_refl.
  - destruct (Ascii.eqb_spec c sep) as [->|N]; [exfalso; auto|].
    rewrite IH by tauto. reflexivity.
Qed.

Lemma join_split sep s : join_with sep (split_on sep s) = s.
Proof.
  induction s as [|c s IH]; simpl; [reflexivity|].
  destruct (Ascii.eqb_spec c sep) as [->|N].
  - assert (H := split_on_nonempty sep s).
    destruct (split_on sep s) as [|h t] eqn:E; [contradiction|].
    simpl in *. destruct t; simpl in *; congruence.
  - assert (H := split_on_nonempty sep s).
    destruct (split_on sep s) as [|h t] eqn:E; [contradiction|].
    destruct t; simpl in *; congruence.
Qed.

Lemma split_on_parts_nosep sep s p : In p (split_on sep s) -> ~ In sep p.
Proof.
  revert p; induction s as [|c s IH]; simpl; intros p H.
  - destruct H as [<-|[]]. auto.
  - destruct (Ascii.eqb_spec c sep) as [->|N].
    + destruct H as [<-|H]; auto.
    + assert (NE := split_on_nonempty sep s).
      destruct (split_on sep s) as [|h t] eqn:E; [contradiction|].
      destruct H as [<-|H].
      * intros [->|Hin]; [contradiction|]. apply (IH h); [now left|exact Hin].
      * apply IH. now right.
Qed.

(** cancellation of a separator-joined pair: the fundamental fact behind ICS-24 key injectivity *)
Lemma app_sep_inj (sep : ascii) (a b a' b' : bytes) :
  ~ In sep a -> ~ In sep a' -> a ++ sep :: b = a' ++ sep :: b' -> a = a' /\ b = b'.
Proof.
  revert a'; induction a as [|x a IH]; intros a' Ha Ha' E.
  - destruct a' as [|y a']; simpl in E.
    + injection E as E. auto.
    + injection E as -> _. exfalso. apply Ha'. now left.
  - destruct a' as [|y a']; simpl in E.
    + injection E as -> _. exfalso. apply Ha. now left.
    + injection E as -> E. destruct (IH a') as [-> ->]; simpl in *; auto; tauto.
Qed.

Lemma app_len_inj {A} (a b a' b' : list A) :
  length a = length a' -> a ++ b = a' ++ b' -> a = a' /\ b = b'.
Proof.
  revert a'; induction a as [|x a IH]; destruct a' as [|y a']; simpl; intros L E; try discriminate; auto.
  injection E as -> E. injection L as L. destruct (IH a' L E) as [-> ->]. auto.
Qed.

Lemma forallb_not_in (f : ascii -> bool) c s : forallb f s = true -> f c = false -> ~ In c s.
Proof.
  intros H Hc Hin. rewrite forallb_forall in H. apply H in Hin. congruence.
Qed.
