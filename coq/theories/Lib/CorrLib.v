(** Shared by the generated correspondence files: the list of case indices on which the
    executable model and the observed implementation output differ. *)
From IBC Require Import Lib.Bytes.

Fixpoint mismatches_from {A} (check : A -> bool) (i : N) (l : list A) : list N :=
  match l with
  | [] => []
  | c :: l' => if check c then mismatches_from check (N.succ i) l'
               else i :: mismatches_from check (N.succ i) l'
  end.
Definition mismatches {A} (check : A -> bool) (l : list A) : list N := mismatches_from check 0%N l.

Definition bool_eqb (a b : bool) : bool := Bool.eqb a b.

Definition opt_eqb {A} (eqb : A -> A -> bool) (a b : option A) : bool :=
  match a, b with
  | None, None => true
  | Some x, Some y => eqb x y
  | _, _ => false
  end.

Fixpoint list_eqb {A} (eqb : A -> A -> bool) (a b : list A) : bool :=
  match a, b with
  | [], [] => true
  | x :: a', y :: b' => eqb x y && list_eqb eqb a' b'
  | _, _ => false
  end.
