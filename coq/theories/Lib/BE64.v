(** sdk.Uint64ToBigEndian / binary.BigEndian.PutUint64 *)
From IBC Require Import Lib.Bytes Lib.Dec.

Fixpoint be_bytes (k : nat) (n : N) : bytes :=
  match k with
  | O => []
  | S k' => ascii_of_N ((n / 256 ^ N.of_nat k') mod 256) :: be_bytes k' n
  end.

Definition be64 (n : N) : bytes := be_bytes 8 n.

Fixpoint be_val (s : bytes) (acc : N) : N :=
  match s with
  | [] => acc
  | c :: s' => be_val s' (acc * 256 + N_of_ascii c)
  end.

(** sdk.BigEndianToUint64: 0 on empty input; binary.BigEndian.Uint64 reads the first 8 bytes
    (panics when shorter - callers are modelled explicitly where that matters). *)
Definition be64_decode (s : bytes) : N := be_val (firstn 8 s) 0.

(** lexicographic comparison of byte strings (bytes.Compare) *)
Fixpoint bytes_cmp (a b : bytes) : comparison :=
  match a, b with
  | [], [] => Eq
  | [], _ => Lt
  | _, [] => Gt
  | x :: a', y :: b' =>
      match N.compare (N_of_ascii x) (N_of_ascii y) with
      | Eq => bytes_cmp a' b'
      | c => c
      end
  end.
