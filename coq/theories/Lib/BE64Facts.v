From IBC Require Import Lib.Bytes Lib.Dec Lib.BE64.
Local Open Scope N_scope.

Lemma be_bytes_length k n : length (be_bytes k n) = k.
Proof. induction k; simpl; auto. Qed.

Lemma be64_length n : length (be64 n) = 8%nat.
Proof. apply be_bytes_length. Qed.

Lemma byte_embed x : x < 256 -> N_of_ascii (ascii_of_N x) = x.
Proof. apply N_ascii_embedding. Qed.

Lemma mod_split a k : a mod 256 ^ (N.succ k) = ((a / 256 ^ k) mod 256) * 256 ^ k + a mod 256 ^ k.
Proof.
  rewrite N.pow_succ_r'.
  assert (256 ^ k <> 0) as Hk by (apply N.pow_nonzero; discriminate).
  rewrite (N.mul_comm 256), N.mod_mul_r by (try assumption; discriminate).
  lia.
Qed.

Lemma be_val_be_bytes k n acc :
  be_val (be_bytes k n) acc = acc * 256 ^ N.of_nat k + n mod 256 ^ N.of_nat k.
Proof.
  revert acc; induction k as [|k IH]; intros acc.
  - simpl. rewrite N.mod_1_r. lia.
  - cbn [be_bytes be_val]. rewrite IH.
    rewrite byte_embed by (apply N.mod_lt; discriminate).
    rewrite Nat2N.inj_succ, mod_split, N.pow_succ_r'. lia.
Qed.

Lemma be64_decode_encode n : n < two64 -> be64_decode (be64 n) = n.
Proof.
  intros H. unfold be64_decode, be64.
  rewrite firstn_all2 by (rewrite be_bytes_length; lia).
  rewrite be_val_be_bytes. simpl N.of_nat.
  change (256 ^ 8) with two64. rewrite N.mod_small by assumption. lia.
Qed.

Lemma be64_inj a b : a < two64 -> b < two64 -> be64 a = be64 b -> a = b.
Proof.
  intros Ha Hb E. rewrite <- (be64_decode_encode a Ha), <- (be64_decode_encode b Hb). now rewrite E.
Qed.

Lemma be_bytes_cmp k a b :
  bytes_cmp (be_bytes k a) (be_bytes k b) = (a mod 256 ^ N.of_nat k ?= b mod 256 ^ N.of_nat k).
Proof.
  induction k as [|k IH].
  - simpl. now rewrite !N.mod_1_r.
  - cbn [be_bytes bytes_cmp].
    rewrite !byte_embed by (apply N.mod_lt; discriminate).
    rewrite Nat2N.inj_succ, !mod_split.
    set (K := 256 ^ N.of_nat k) in *.
    assert (0 < K) as HK by (apply N.neq_0_lt_0, N.pow_nonzero; discriminate).
    assert (a mod K < K) as Ha by (apply N.mod_lt; lia).
    assert (b mod K < K) as Hb by (apply N.mod_lt; lia).
    set (da := (a / K) mod 256). set (db := (b / K) mod 256).
    clearbody da db. clearbody K.
    revert IH Ha Hb. generalize (a mod K) (b mod K). intros am bm IH Ha Hb.
    destruct (N.compare_spec da db) as [E|L|G].
    + rewrite IH, E. destruct (N.compare_spec am bm);
        symmetry; [apply N.compare_eq_iff|apply N.compare_lt_iff|apply N.compare_gt_iff]; lia.
    + symmetry; apply N.compare_lt_iff.
      assert ((da + 1) * K <= db * K) by (apply N.mul_le_mono_r; lia). lia.
    + symmetry; apply N.compare_gt_iff.
      assert ((db + 1) * K <= da * K) by (apply N.mul_le_mono_r; lia). lia.
Qed.

(** big-endian encoding is an order isomorphism onto lexicographic byte order *)
Lemma be64_cmp a b : a < two64 -> b < two64 -> bytes_cmp (be64 a) (be64 b) = (a ?= b).
Proof.
  intros Ha Hb. unfold be64. rewrite be_bytes_cmp. simpl N.of_nat.
  change (256 ^ 8) with two64. now rewrite !N.mod_small.
Qed.
