(** Executable SHA-256 (FIPS 180-4) over N words; validated against Go's crypto/sha256 by the
    correspondence families on every run.  Used to *compute* commitments, voucher names and addresses in the
    models; injectivity theorems never assume collision resistance (they exhibit the collision instead). *)
From IBC Require Import Lib.Bytes.
Local Open Scope N_scope.

Definition w32 : N := 4294967296.
Definition mask32 : N := 4294967295.
(* operands are < 2^32, so one conditional subtraction is the reduction mod 2^32 *)
Definition add32 (a b : N) : N := let s := a + b in if s <? w32 then s else s - w32.
Definition rotr (n x : N) : N := N.lor (N.shiftr x n) (N.land (N.shiftl x (32 - n)) mask32).
Definition shr (n x : N) : N := N.shiftr x n.
Definition not32 (x : N) : N := N.lxor x mask32.

Definition Ch (x y z : N) := N.lxor (N.land x y) (N.land (not32 x) z).
Definition Maj (x y z : N) := N.lxor (N.lxor (N.land x y) (N.land x z)) (N.land y z).
Definition bsig0 x := N.lxor (N.lxor (rotr 2 x) (rotr 13 x)) (rotr 22 x).
Definition bsig1 x := N.lxor (N.lxor (rotr 6 x) (rotr 11 x)) (rotr 25 x).
Definition ssig0 x := N.lxor (N.lxor (rotr 7 x) (rotr 18 x)) (shr 3 x).
Definition ssig1 x := N.lxor (N.lxor (rotr 17 x) (rotr 19 x)) (shr 10 x).

Definition K256 : list N :=
 [0x428a2f98; 0x71374491; 0xb5c0fbcf; 0xe9b5dba5; 0x3956c25b; 0x59f111f1; 0x923f82a4; 0xab1c5ed5;
  0xd807aa98; 0x12835b01; 0x243185be; 0x550c7dc3; 0x72be5d74; 0x80deb1fe; 0x9bdc06a7; 0xc19bf174;
  0xe49b69c1; 0xefbe4786; 0x0fc19dc6; 0x240ca1cc; 0x2de92c6f; 0x4a7484aa; 0x5cb0a9dc; 0x76f988da;
  0x983e5152; 0xa831c66d; 0xb00327c8; 0xbf597fc7; 0xc6e00bf3; 0xd5a79147; 0x06ca6351; 0x14292967;
  0x27b70a85; 0x2e1b2138; 0x4d2c6dfc; 0x53380d13; 0x650a7354; 0x766a0abb; 0x81c2c92e; 0x92722c85;
  0xa2bfe8a1; 0xa81a664b; 0xc24b8b70; 0xc76c51a3; 0xd192e819; 0xd6990624; 0xf40e3585; 0x106aa070;
  0x19a4c116; 0x1e376c08; 0x2748774c; 0x34b0bcb5; 0x391c0cb3; 0x4ed8aa4a; 0x5b9cca4f; 0x682e6ff3;
  0x748f82ee; 0x78a5636f; 0x84c87814; 0x8cc70208; 0x90befffa; 0xa4506ceb; 0xbef9a3f7; 0xc67178f2].

Definition H0 : list N :=
 [0x6a09e667; 0xbb67ae85; 0x3c6ef372; 0xa54ff53a; 0x510e527f; 0x9b05688c; 0x1f83d9ab; 0x5be0cd19].

(** padding: message ++ 0x80 ++ zeros ++ 64-bit big-endian bit length, to a multiple of 64 bytes *)
Fixpoint be_n (k : nat) (n : N) : list N :=
  match k with O => [] | S k' => ((n / 256 ^ N.of_nat k') mod 256) :: be_n k' n end.

Definition pad (msg : list N) : list N :=
  let l := N.of_nat (length msg) in
  let z := (64 - ((l + 9) mod 64)) mod 64 in
  msg ++ [128] ++ repeat 0 (N.to_nat z) ++ be_n 8 (8 * l).

Fixpoint words (bs : list N) : list N :=
  match bs with
  | a :: b :: c :: d :: r => (((a * 256 + b) * 256 + c) * 256 + d) :: words r
  | _ => []
  end.

Fixpoint chunks16 (fuel : nat) (ws : list N) : list (list N) :=
  match fuel with
  | O => []
  | S f => match ws with [] => [] | _ => firstn 16 ws :: chunks16 f (skipn 16 ws) end
  end.

(** message schedule: keep the last 16 words, newest first *)
Definition nthN (l : list N) (i : nat) : N := nth i l 0.

Fixpoint schedule (k : nat) (recent : list N) (acc : list N) : list N :=
  (* recent: newest-first window of the last 16 words; acc: all words so far, reversed *)
  match k with
  | O => rev acc
  | S k' =>
      let w := add32 (add32 (ssig1 (nthN recent 1)) (nthN recent 6)) (add32 (ssig0 (nthN recent 14)) (nthN recent 15)) in
      schedule k' (w :: firstn 15 recent) (w :: acc)
  end.

Definition expand (blk : list N) : list N := schedule 48 (rev blk) (rev blk).

Definition round (st : list N) (kw : N * N) : list N :=
  match st with
  | [a; b; c; d; e; f; g; h] =>
      let t1 := add32 (add32 (add32 h (bsig1 e)) (add32 (Ch e f g) (fst kw))) (snd kw) in
      let t2 := add32 (bsig0 a) (Maj a b c) in
      [add32 t1 t2; a; b; c; add32 d t1; e; f; g]
  | _ => st
  end.

Definition compress (h : list N) (blk : list N) : list N :=
  let w := expand blk in
  let st := fold_left round (combine K256 w) h in
  map (fun p => add32 (fst p) (snd p)) (combine h st).

Definition sha256_N (msg : list N) : list N :=
  let p := pad msg in
  let ws := words p in
  let hs := fold_left compress (chunks16 (S (length ws / 16)) ws) H0 in
  flat_map (be_n 4) hs.

Definition sha256 (msg : bytes) : bytes :=
  map ascii_of_N (sha256_N (map N_of_ascii msg)).
