(** Proofs about TmVerify/World.v (C21, C25). *)
From IBC Require Import Lib.Bytes Lib.BytesFacts Lib.Dec Core.Height Core.HeightFacts TmVerify.Util TmVerify.World.
Local Open Scope N_scope.

(** destruct the scrutinee of the first match found in hypothesis H *)
Ltac dmatch H :=
  match type of H with
  | context [match ?x with _ => _ end] =>
      let E := fresh "E" in destruct x eqn:E
  | context [if ?x then _ else _] =>
      let E := fresh "E" in destruct x eqn:E
  end.

(** ---- maps ---- *)
Lemma height_eqb_eq a b : height_eqb a b = true <-> a = b.
Proof.
  unfold height_eqb. destruct a as [ra ha], b as [rb hb]; simpl. rewrite andb_true_iff, !N.eqb_eq.
  split; [intros [-> ->]; reflexivity | intros H; inversion H; auto].
Qed.
Lemma height_eqb_refl a : height_eqb a a = true.
Proof. apply height_eqb_eq; reflexivity. Qed.
Lemma height_eqb_neq a b : height_eqb a b = false <-> a <> b.
Proof.
  split; intros H.
  - intros ->. rewrite height_eqb_refl in H. discriminate.
  - destruct (height_eqb a b) eqn:E; auto. apply height_eqb_eq in E. contradiction.
Qed.

Lemma nlookup_nset_same {V} k (v : V) m : nlookup k (nset k v m) = Some v.
Proof.
  induction m as [|[k' v'] m IH]; simpl.
  - rewrite N.eqb_refl. reflexivity.
  - destruct (k' =? k) eqn:E; simpl; [rewrite N.eqb_refl|rewrite E]; auto.
Qed.
Lemma nlookup_nset_other {V} k k' (v : V) m : k' <> k -> nlookup k' (nset k v m) = nlookup k' m.
Proof.
  intros NE. induction m as [|[k0 v0] m IH]; simpl.
  - destruct (k =? k') eqn:E; auto. apply N.eqb_eq in E. congruence.
  - destruct (k0 =? k) eqn:E; simpl.
    + apply N.eqb_eq in E. subst k0. destruct (k =? k') eqn:E'; auto. apply N.eqb_eq in E'. congruence.
    + destruct (k0 =? k'); auto.
Qed.

Lemma hlookup_hremove_same {V} h (m : list (Height * V)) : hlookup h (hremove h m) = None.
Proof.
  induction m as [|[k v] m IH]; simpl; auto.
  destruct (height_eqb k h) eqn:E; simpl; auto. rewrite E. auto.
Qed.
Lemma hlookup_hremove_other {V} h h' (m : list (Height * V)) : h' <> h -> hlookup h' (hremove h m) = hlookup h' m.
Proof.
  intros NE. induction m as [|[k v] m IH]; simpl; auto.
  destruct (height_eqb k h) eqn:E; simpl.
  - apply height_eqb_eq in E. subst k. destruct (height_eqb h h') eqn:E'; auto.
    apply height_eqb_eq in E'. congruence.
  - destruct (height_eqb k h'); auto.
Qed.
Lemma hlookup_hinsert_same {V} h (v : V) m : hlookup h (hinsert h v m) = Some v.
Proof. unfold hinsert. simpl. rewrite height_eqb_refl. reflexivity. Qed.
Lemma hlookup_hinsert_other {V} h h' (v : V) m : h' <> h -> hlookup h' (hinsert h v m) = hlookup h' m.
Proof.
  intros NE. unfold hinsert. simpl. destruct (height_eqb h h') eqn:E.
  - apply height_eqb_eq in E. congruence.
  - apply hlookup_hremove_other; auto.
Qed.

Lemma get_set_same w cid c : get_client (set_client w cid c) cid = Some (Tm c).
Proof. unfold get_client, set_client; simpl. apply nlookup_nset_same. Qed.
Lemma get_set_other w cid cid' c : cid' <> cid -> get_client (set_client w cid c) cid' = get_client w cid'.
Proof. intros NE. unfold get_client, set_client; simpl. apply nlookup_nset_other; auto. Qed.
Lemma now_set w cid c : w_now (set_client w cid c) = w_now w.
Proof. reflexivity. Qed.

Lemma list_bytes_eqb_eq a b : list_bytes_eqb a b = true <-> a = b.
Proof.
  unfold list_bytes_eqb. revert b. induction a as [|x a IH]; destruct b as [|y b]; simpl; split; intros H;
    try discriminate; auto.
  - apply andb_true_iff in H. destruct H as [H1 H2]. apply bytes_eqb_eq in H1. apply IH in H2. congruence.
  - inversion H; subst. apply andb_true_iff. split; [apply bytes_eqb_refl | apply IH; reflexivity].
Qed.

Lemma status_eqb_eq a b : status_eqb a b = true <-> a = b.
Proof. destruct a, b; simpl; split; intros H; auto; discriminate. Qed.

(** ---- C21: status is exact ---- *)
Lemma status_frozen_iff now c : status now c = Frozen <-> h_is_zero (c_frozen c) = false.
Proof.
  unfold status. destruct (h_is_zero (c_frozen c)); simpl.
  - split; [|discriminate]. destruct (hlookup _ _); [destruct (is_expired _ _ _)|]; discriminate.
  - split; auto.
Qed.

Lemma status_expired_iff now c :
  status now c = Expired <->
  h_is_zero (c_frozen c) = true /\
  (hlookup (c_latest c) (c_cons c) = None \/
   exists cs, hlookup (c_latest c) (c_cons c) = Some cs /\ (cs_ts cs + c_trusting c <= now)%Z).
Proof.
  unfold status, is_expired. destruct (h_is_zero (c_frozen c)); simpl.
  - destruct (hlookup (c_latest c) (c_cons c)) as [cs|].
    + destruct (Z.ltb_spec now (cs_ts cs + c_trusting c)); simpl; split.
      * discriminate.
      * intros [_ [H'|[cs' [H' L]]]]; [discriminate|]. inversion H'; subst. lia.
      * intros _. split; auto. right. exists cs. split; auto.
      * auto.
    + split; auto.
  - split; [discriminate|]. intros [H _]. discriminate.
Qed.

Lemma status_active_iff now c :
  status now c = Active <->
  h_is_zero (c_frozen c) = true /\
  exists cs, hlookup (c_latest c) (c_cons c) = Some cs /\ (now < cs_ts cs + c_trusting c)%Z.
Proof.
  unfold status, is_expired. destruct (h_is_zero (c_frozen c)); simpl.
  - destruct (hlookup (c_latest c) (c_cons c)) as [cs|].
    + destruct (Z.ltb_spec now (cs_ts cs + c_trusting c)); simpl; split.
      * intros _. split; auto. exists cs. split; auto.
      * auto.
      * discriminate.
      * intros [_ [cs' [H' L]]]. inversion H'; subst. lia.
    + split; [discriminate|]. intros [_ [cs [H' _]]]. discriminate.
  - split; [discriminate|]. intros [H _]. discriminate.
Qed.

Lemma status_never_unknown now c : status now c <> Unknown.
Proof.
  unfold status. destruct (negb _); [discriminate|].
  destruct (hlookup _ _); [destruct (is_expired _ _ _)|]; discriminate.
Qed.

(** once expired (not frozen), a client stays expired as time passes while it is not written *)
Lemma status_expired_mono now now' c : status now c = Expired -> (now <= now')%Z -> status now' c = Expired.
Proof.
  intros H L. apply status_expired_iff in H. apply status_expired_iff. destruct H as [F H]. split; auto.
  destruct H as [H|[cs [H1 H2]]]; auto. right. exists cs. split; auto. lia.
Qed.


(** ---- C25: calculateNewTrustingPeriod is an exact floor below 2*10^18 ---- *)
Section NewTrusting.
Local Open Scope Z_scope.

Lemma div_between a b k : 0 < b -> k * b <= a < (k + 1) * b -> a / b = k.
Proof. intros Hb H. symmetry. apply Z.div_unique with (r := a - k * b); lia. Qed.

Lemma legacy_dec_core P H X ou R : 0 < H -> P = 2 * H -> 0 <= X -> 0 < ou < 2 * P ->
  (R = (X * P * P / ou) / P \/ (R = (X * P * P / ou) / P + 1 /\ H <= (X * P * P / ou) mod P)) ->
  R / P = X / ou.
Proof.
  intros HH HP HX Hou HR.
  assert (P0 : 0 < P) by lia.
  set (k := X / ou). set (f := X mod ou).
  assert (EX : X = ou * k + f) by (apply Z.div_mod; lia).
  assert (Ef : 0 <= f < ou) by (apply Z.mod_pos_bound; lia).
  assert (Hk : 0 <= k) by (apply Z.div_pos; lia).
  set (Q := X * P * P / ou) in *. set (r0 := (X * P * P) mod ou).
  assert (EQ : X * P * P = ou * Q + r0) by (apply Z.div_mod; lia).
  assert (Er0 : 0 <= r0 < ou) by (apply Z.mod_pos_bound; lia).
  set (q1 := Q / P) in *. set (r1 := Q mod P) in *.
  assert (Eq1 : Q = P * q1 + r1) by (apply Z.div_mod; lia).
  assert (Er1 : 0 <= r1 < P) by (apply Z.mod_pos_bound; lia).
  clearbody q1 r1 Q r0 k f.
  assert (PP : 0 < P * P) by (apply Z.mul_pos_pos; lia).
  (* k*P*P <= Q < (k+1)*P*P *)
  assert (L1 : k * (P * P) <= Q).
  { destruct (Z_le_gt_dec (k * (P * P)) Q); auto. exfalso.
    assert (ou * (Q + 1) <= ou * (k * (P * P))) by (apply Z.mul_le_mono_nonneg_l; lia).
    assert (0 <= f * (P * P)) by (apply Z.mul_nonneg_nonneg; lia).
    assert (X * P * P = ou * (k * (P * P)) + f * (P * P)) by (subst X; ring).
    lia. }
  assert (U1 : (Q - (k + 1) * (P * P)) * ou <= - (P * P)).
  { assert (X + 1 <= (k + 1) * ou) by lia.
    assert ((X + 1) * (P * P) <= (k + 1) * ou * (P * P)) by (apply Z.mul_le_mono_nonneg_r; lia).
    lia. }
  assert (U2 : Q < (k + 1) * (P * P)).
  { destruct (Z_lt_ge_dec Q ((k + 1) * (P * P))); auto. exfalso.
    assert (0 <= (Q - (k + 1) * (P * P)) * ou) by (apply Z.mul_nonneg_nonneg; lia). lia. }
  apply div_between; auto.
  assert (Lq : k * P <= q1).
  { destruct (Z_le_gt_dec (k * P) q1); auto. exfalso.
    assert (q1 + 1 <= k * P) by lia.
    assert (P * (q1 + 1) <= P * (k * P)) by (apply Z.mul_le_mono_nonneg_l; lia). lia. }
  assert (Uq : q1 <= (k + 1) * P - 1).
  { destruct (Z_le_gt_dec q1 ((k + 1) * P - 1)); auto. exfalso.
    assert ((k + 1) * P <= q1) by lia.
    assert (P * ((k + 1) * P) <= P * q1) by (apply Z.mul_le_mono_nonneg_l; lia). lia. }
  destruct HR as [-> | [-> Hb]]; [lia|].
  split; [lia|].
  destruct (Z.eq_dec q1 ((k + 1) * P - 1)) as [E|NE]; [|lia].
  exfalso.
  assert (R1 : r1 = Q - (k + 1) * (P * P) + P) by (subst q1; lia).
  assert (R2 : r1 * ou <= P * (ou - P)) by (rewrite R1; lia).
  assert (R3 : H * ou <= r1 * ou) by (apply Z.mul_le_mono_nonneg_r; lia).
  subst P.
  assert (R4 : H * (4 * H) <= H * ou) by lia.
  assert (4 * H <= ou) by (apply Z.mul_le_mono_pos_l with H; lia).
  lia.
Qed.

Definition dec_half : Z := 500000000000000000.
Lemma dec_prec_half : dec_prec = 2 * dec_half.
Proof. reflexivity. Qed.

Lemma chop_round_nonneg d :
  0 <= d -> chop_round d = d / dec_prec \/ (chop_round d = d / dec_prec + 1 /\ dec_half <= d mod dec_prec).
Proof.
  intros Hd. unfold chop_round.
  assert (P0 : 0 < dec_prec) by reflexivity.
  rewrite (Z.abs_eq d) by lia.
  rewrite Z.quot_div_nonneg by lia. rewrite Z.rem_mod_nonneg by lia.
  replace (Z.quot dec_prec 2) with dec_half by reflexivity.
  destruct (Z.ltb_spec d 0); [lia|].
  destruct (Z.eqb_spec (d mod dec_prec) 0); [left; reflexivity|].
  destruct (Z.compare_spec (d mod dec_prec) dec_half).
  - destruct (Z.even (d / dec_prec)); [left; reflexivity|right; split; [reflexivity|lia]].
  - left; reflexivity.
  - right; split; [reflexivity|lia].
Qed.

Lemma chop_round_exact x : 0 <= x -> chop_round (x * dec_prec) = x.
Proof.
  intros Hx. unfold chop_round.
  assert (P0 : 0 < dec_prec) by reflexivity.
  assert (0 <= x * dec_prec) by (apply Z.mul_nonneg_nonneg; lia).
  rewrite (Z.abs_eq (x * dec_prec)) by lia.
  rewrite Z.quot_mul by lia. rewrite Z.rem_mul by lia. simpl.
  destruct (Z.ltb_spec (x * dec_prec) 0); [lia|reflexivity].
Qed.

Lemma calc_new_trusting_floor t ou nu :
  0 < t < two63Z -> 0 < nu -> nu < ou -> ou < 2 * dec_prec ->
  calc_new_trusting t ou nu = Some (t * nu / ou).
Proof.
  intros Ht Hnu Hlt Hou. unfold calc_new_trusting.
  assert (P0 : 0 < dec_prec) by reflexivity.
  destruct (Z.eqb_spec ou 0) as [->|NZ]; [lia|].
  unfold dec_mul, dec_new, dec_quo, dec_trunc.
  assert (HX : 0 <= t * nu) by (apply Z.mul_nonneg_nonneg; lia).
  replace (t * dec_prec * (nu * dec_prec)) with ((t * nu * dec_prec) * dec_prec) by ring.
  rewrite chop_round_exact by (apply Z.mul_nonneg_nonneg; lia).
  assert (HN : 0 <= t * nu * dec_prec * dec_prec * dec_prec) by (repeat apply Z.mul_nonneg_nonneg; lia).
  rewrite (Z.quot_div_nonneg (t * nu * dec_prec * dec_prec * dec_prec) (ou * dec_prec)); [ | exact HN | apply Z.mul_pos_pos; lia ].
  replace (t * nu * dec_prec * dec_prec * dec_prec) with ((t * nu * dec_prec * dec_prec) * dec_prec) by ring.
  rewrite Z.div_mul_cancel_r by lia.
  set (Q := t * nu * dec_prec * dec_prec / ou).
  assert (HQ : 0 <= Q) by (apply Z.div_pos; [repeat apply Z.mul_nonneg_nonneg; lia|lia]).
  assert (HR := chop_round_nonneg Q HQ).
  assert (HRpos : 0 <= chop_round Q).
  { destruct HR as [-> | [-> _]]; [|assert (0 <= Q / dec_prec) by (apply Z.div_pos; lia); lia].
    apply Z.div_pos; lia. }
  rewrite Z.quot_div_nonneg by lia.
  rewrite (legacy_dec_core dec_prec dec_half (t * nu) ou (chop_round Q)); try lia;
    [|reflexivity|exact dec_prec_half|exact HR].
  assert (L : 0 <= t * nu / ou) by (apply Z.div_pos; lia).
  assert (U : t * nu / ou <= t).
  { apply Z.div_le_upper_bound; [lia|]. rewrite (Z.mul_comm ou t). apply Z.mul_le_mono_nonneg_l; lia. }
  unfold two63Z in Ht.
  destruct (Z.leb_spec min_int64 (t * nu / ou)); [|unfold min_int64 in *; lia].
  destruct (Z.leb_spec (t * nu / ou) max_int64); [reflexivity|unfold max_int64 in *; lia].
Qed.
End NewTrusting.


(** ---- the trust level fits int64 for every validated client, and no operation changes it ---- *)
Definition tl_fits (c : Client) : Prop := (Z.of_N (c_tl_num c) < two63Z)%Z /\ (Z.of_N (c_tl_den c) < two63Z)%Z.

Lemma validate_client_tl_fits c : validate_client c = Some true -> tl_fits c.
Proof.
  unfold validate_client. intros H.
  destruct (is_blank (c_chain c)); [discriminate|].
  destruct (50 <? N.of_nat (length (c_chain c)))%N; [discriminate|].
  destruct (negb (valid_trust_level (c_tl_num c) (c_tl_den c))); [discriminate|].
  destruct (trust_level_fits (c_tl_num c) (c_tl_den c)) eqn:F; simpl in H; [|discriminate].
  unfold trust_level_fits in F. apply andb_true_iff in F. destruct F as [F1 F2].
  apply Z.leb_le in F1, F2. unfold tl_fits, two63Z, max_int64 in *. lia.
Qed.

Lemma option_eq_dec_N (o : option N) (k : N) : {o = Some k} + {o <> Some k}.
Proof. destruct o as [n|]; [destruct (N.eq_dec n k); [left; congruence | right; congruence] | right; discriminate]. Qed.

Lemma is_matching_iff a b :
  is_matching a b = true <->
  c_tl_num a = c_tl_num b /\ c_tl_den a = c_tl_den b /\ c_unbonding a = c_unbonding b /\
  c_drift a = c_drift b /\ c_specs a = c_specs b /\ c_upath a = c_upath b.
Proof.
  unfold is_matching. rewrite !andb_true_iff, !N.eqb_eq, !Z.eqb_eq, bytes_eqb_eq, list_bytes_eqb_eq. tauto.
Qed.

Section WithOracles.
  Variable vmem : bytes -> bytes -> bytes -> list bytes -> bytes -> bool.
  Variable vnon : bytes -> bytes -> bytes -> list bytes -> bool.
  Variable enc_client : Client -> bytes.
  Variable enc_cons : ConsState -> bytes.

  Notation step := (step vmem vnon enc_client enc_cons).
  Notation run := (run vmem vnon enc_client enc_cons).
  Notation upgrade_client := (upgrade_client vmem enc_client enc_cons).

  (** ---- frame: an operation writes at most its target client, and never the clock of anything else ---- *)
  Lemma update_client_frame w cid m cid' :
    cid' <> cid -> get_client (fst (update_client w cid m)) cid' = get_client w cid'.
  Proof.
    intros NE. unfold update_client.
    destruct (get_client w cid) as [[c|ty]|]; simpl; auto.
    destruct (status (w_now w) c); simpl; auto.
    destruct (negb (msg_verified m)); simpl; auto.
    destruct (check_for_misbehaviour c m); simpl.
    - apply get_set_other; auto.
    - destruct m; simpl; auto. apply get_set_other; auto.
  Qed.

  Lemma recover_client_frame w a b cid' :
    cid' <> a -> get_client (fst (recover_client w a b)) cid' = get_client w cid'.
  Proof.
    intros NE. unfold recover_client.
    destruct (get_client w a) as [[c|ty]|] eqn:Ea; simpl; auto.
    - destruct (status_eqb (status (w_now w) c) Active); simpl; auto.
      destruct (get_client w b) as [[s|ty]|]; simpl; auto.
      destruct (negb (status_eqb (status (w_now w) s) Active)); simpl; auto.
      destruct (h_gte (latest_of w a) (c_latest s)); simpl; auto.
      destruct (negb (is_matching c s)); simpl; auto.
      destruct (hlookup (c_latest s) (c_cons s)) as [e|]; simpl; auto.
      destruct (cs_pheight e); simpl; auto. destruct (cs_ptime e); simpl; auto.
      apply get_set_other; auto.
    - destruct (get_client w b) as [[s|ty]|]; simpl; auto.
      destruct (negb (status_eqb (status (w_now w) s) Active)); simpl; auto.
      destruct (h_gte (latest_of w a) (c_latest s)); simpl; auto.
  Qed.

  Lemma upgrade_client_frame w cid u cid' :
    cid' <> cid -> get_client (fst (upgrade_client w cid u)) cid' = get_client w cid'.
  Proof.
    intros NE. unfold World.upgrade_client.
    destruct (get_client w cid) as [[c|ty]|]; simpl; auto.
    destruct (status (w_now w) c); simpl; auto.
    destruct (negb (h_gt (c_latest (u_client u)) (c_latest c))); simpl; auto.
    destruct (c_upath c) eqn:Eup; simpl; auto.
    destruct (hlookup (c_latest c) (c_cons c)) as [e|]; simpl; auto.
    destruct (negb (vmem _ _ _ _ _)); simpl; auto.
    destruct (negb (vmem _ _ _ _ _)); simpl; auto.
    destruct (if (c_unbonding (u_client u) <? c_unbonding c)%Z then _ else _) as [t|]; simpl; auto.
    destruct (validate_client _) as [[|]|]; simpl; auto.
    apply get_set_other; auto.
  Qed.

  Theorem step_frame w o cid :
    op_target o <> Some cid -> get_client (fst (step w o)) cid = get_client w cid.
  Proof.
    intros NT. destruct o; simpl in *; auto.
    - apply update_client_frame. congruence.
    - apply recover_client_frame. congruence.
    - apply upgrade_client_frame. congruence.
  Qed.

  (** ---- C21: every Ok is gated by Active ---- *)
  Theorem step_ok_active w o w' cid :
    step w o = (w', Ok) -> op_client o = Some cid ->
    exists c, get_client w cid = Some (Tm c) /\ status (w_now w) c = Active.
  Proof.
    intros S OC. destruct o; simpl in *; try discriminate; inversion OC; subst; clear OC.
    - (* update *)
      unfold update_client in S. destruct (get_client w cid) as [[c|ty]|]; try (inversion S; fail).
      destruct (status (w_now w) c) eqn:St; try (inversion S; fail). eauto.
    - unfold verify_membership in S. destruct (get_client w cid) as [[c|ty]|]; try (inversion S; fail).
      destruct (status (w_now w) c) eqn:St; try (inversion S; fail). eauto.
    - unfold verify_non_membership in S. destruct (get_client w cid) as [[c|ty]|]; try (inversion S; fail).
      destruct (status (w_now w) c) eqn:St; try (inversion S; fail). eauto.
    - unfold send_gate in S. destruct (get_client w cid) as [[c|ty]|]; try (inversion S; fail).
      destruct (status (w_now w) c) eqn:St; try (inversion S; fail). eauto.
    - unfold handshake_gate in S. destruct (get_client w cid) as [[c|ty]|]; try (inversion S; fail).
      destruct (status (w_now w) c) eqn:St; try (inversion S; fail). eauto.
    - unfold handshake_gate in S. destruct (get_client w cid) as [[c|ty]|]; try (inversion S; fail).
      destruct (status (w_now w) c) eqn:St; try (inversion S; fail). eauto.
    - (* recover: the client used is the substitute *)
      unfold recover_client in S.
      destruct (get_client w subj) as [[c|ty]|] eqn:Ea; try (inversion S; fail).
      + destruct (status_eqb (status (w_now w) c) Active); try (inversion S; fail).
        destruct (get_client w cid) as [[s|ty]|]; try (inversion S; fail).
        destruct (status_eqb (status (w_now w) s) Active) eqn:St; simpl in S; try (inversion S; fail).
        apply status_eqb_eq in St. eauto.
      + simpl in S. destruct (get_client w cid) as [[s|ty]|]; try (inversion S; fail).
        destruct (status_eqb (status (w_now w) s) Active) eqn:St; simpl in S; try (inversion S; fail).
        destruct (h_gte (latest_of w subj) (c_latest s)); inversion S.
    - unfold World.upgrade_client in S. destruct (get_client w cid) as [[c|ty]|]; try (inversion S; fail).
      destruct (status (w_now w) c) eqn:St; try (inversion S; fail). eauto.
  Qed.

  (** the same, at the end of an arbitrary history *)
  Corollary history_ok_active w0 ops o w' cid :
    step (run w0 ops) o = (w', Ok) -> op_client o = Some cid ->
    exists c, get_client (run w0 ops) cid = Some (Tm c) /\ status (w_now (run w0 ops)) c = Active.
  Proof. apply step_ok_active. Qed.

  (** contrapositive form used by the monitors: a non-Active client fails every dependent operation *)
  Corollary not_active_fails w o cid c :
    op_client o = Some cid -> get_client w cid = Some (Tm c) -> status (w_now w) c <> Active ->
    snd (step w o) <> Ok.
  Proof.
    intros OC G NA S. destruct (step w o) as [w' r] eqn:E. simpl in S. subst r.
    destruct (step_ok_active _ _ _ _ E OC) as [c' [G' A]]. rewrite G in G'. inversion G'; subst. contradiction.
  Qed.

  (** ---- C21: latest height never decreases ---- *)
  Lemma prune_latest now c : c_latest (prune_oldest now c) = c_latest c.
  Proof.
    unfold prune_oldest. destruct (hmin (c_cons c)) as [[h e]|]; auto. destruct (is_expired c (cs_ts e) now); auto.
  Qed.

  Lemma update_state_latest w c h ts root nvh :
    h_lte (c_latest c) (c_latest (update_state w c h ts root nvh)) = true.
  Proof.
    unfold update_state. pose proof (prune_latest (w_now w) c) as P.
    destruct (hlookup h (c_cons (prune_oldest (w_now w) c))).
    - rewrite P. apply h_lte_iff. auto.
    - simpl. destruct (h_gt h (c_latest (prune_oldest (w_now w) c))) eqn:G; simpl.
      + rewrite P in G. apply h_gt_iff in G. apply h_lte_iff. auto.
      + rewrite P. apply h_lte_iff. auto.
  Qed.

  Lemma h_lte_refl a : h_lte a a = true.
  Proof. apply h_lte_iff. auto. Qed.

  Lemma step_latest_mono w o cid c :
    get_client w cid = Some (Tm c) ->
    exists c', get_client (fst (step w o)) cid = Some (Tm c') /\ h_lte (c_latest c) (c_latest c') = true.
  Proof.
    intros G.
    destruct (option_eq_dec_N (op_target o) cid) as [T|T].
    2:{ exists c. rewrite step_frame; auto. split; auto. apply h_lte_refl. }
    destruct o; simpl in T; try discriminate; inversion T; subst; clear T; simpl.
    - (* update *)
      unfold update_client. rewrite G.
      destruct (status (w_now w) c); simpl; try solve [exists c; split; [assumption|apply h_lte_refl]].
      destruct (negb (msg_verified m)); simpl; try solve [exists c; split; [assumption|apply h_lte_refl]].
      destruct (check_for_misbehaviour c m); simpl.
      + eexists. rewrite get_set_same. split; [reflexivity|]. simpl. apply h_lte_refl.
      + destruct m; simpl.
        * eexists. rewrite get_set_same. split; [reflexivity|]. apply update_state_latest.
        * exists c; split; [auto|apply h_lte_refl].
    - (* recover *)
      unfold recover_client. rewrite G.
      destruct (status_eqb (status (w_now w) c) Active); simpl; try solve [exists c; split; [assumption|apply h_lte_refl]].
      destruct (get_client w subst) as [[s|ty]|]; simpl; try solve [exists c; split; [assumption|apply h_lte_refl]].
      destruct (negb (status_eqb (status (w_now w) s) Active)); simpl; try solve [exists c; split; [assumption|apply h_lte_refl]].
      destruct (h_gte (latest_of w cid) (c_latest s)) eqn:GT; simpl; try solve [exists c; split; [assumption|apply h_lte_refl]].
      destruct (negb (is_matching c s)); simpl; try solve [exists c; split; [assumption|apply h_lte_refl]].
      destruct (hlookup (c_latest s) (c_cons s)) as [e|]; simpl; try solve [exists c; split; [assumption|apply h_lte_refl]].
      destruct (cs_pheight e); simpl; try solve [exists c; split; [assumption|apply h_lte_refl]].
      destruct (cs_ptime e); simpl; try solve [exists c; split; [assumption|apply h_lte_refl]].
      eexists. rewrite get_set_same. split; [reflexivity|]. simpl.
      unfold latest_of in GT. rewrite G in GT. rewrite h_gte_lte in GT.
      destruct (h_lte_total (c_latest c) (c_latest s)) as [H|H]; auto. congruence.
    - (* upgrade *)
      unfold World.upgrade_client. rewrite G.
      destruct (status (w_now w) c); simpl; try solve [exists c; split; [assumption|apply h_lte_refl]].
      destruct (negb (h_gt (c_latest (u_client u)) (c_latest c))) eqn:GT; simpl;
        try solve [exists c; split; [assumption|apply h_lte_refl]].
      destruct (c_upath c) eqn:Eup; simpl; try solve [exists c; split; [assumption|apply h_lte_refl]].
      destruct (hlookup (c_latest c) (c_cons c)) as [e|]; simpl; try solve [exists c; split; [assumption|apply h_lte_refl]].
      destruct (negb (vmem _ _ _ _ _)); simpl; try solve [exists c; split; [assumption|apply h_lte_refl]].
      destruct (negb (vmem _ _ _ _ _)); simpl; try solve [exists c; split; [assumption|apply h_lte_refl]].
      destruct (if (c_unbonding (u_client u) <? c_unbonding c)%Z then _ else _) as [t|]; simpl;
        try solve [exists c; split; [assumption|apply h_lte_refl]].
      destruct (validate_client _) as [[|]|]; simpl; try solve [exists c; split; [assumption|apply h_lte_refl]].
      eexists. rewrite get_set_same. split; [reflexivity|]. simpl.
      apply negb_false_iff in GT. apply h_gt_iff in GT. apply h_lte_iff. auto.
  Qed.

  Theorem run_latest_mono ops : forall w cid c,
    get_client w cid = Some (Tm c) ->
    exists c', get_client (run w ops) cid = Some (Tm c') /\ h_lte (c_latest c) (c_latest c') = true.
  Proof.
    induction ops as [|o ops IH]; intros w cid c G; simpl.
    - exists c. split; auto. apply h_lte_refl.
    - destruct (step_latest_mono w o cid c G) as [c1 [G1 L1]].
      destruct (IH _ _ _ G1) as [c2 [G2 L2]]. exists c2. split; auto. eapply h_lte_trans; eauto.
  Qed.

  (** ---- C25: recovery ---- *)

  (** what the recovered subject looks like *)
  Definition recovered (c s : Client) (e : ConsState) : Client :=
    mkClient (c_chain s) (c_tl_num c) (c_tl_den c) (c_trusting s) (c_unbonding c) (c_drift c) zero_height
             (c_latest s) (c_specs c) (c_upath c) (hinsert (c_latest s) e (c_cons c)).

  Theorem recover_ok_inv w a b w' :
    recover_client w a b = (w', Ok) ->
    exists c s e pt ph,
      get_client w a = Some (Tm c) /\ get_client w b = Some (Tm s) /\
      status (w_now w) c <> Active /\ status (w_now w) s = Active /\
      lex_lt (c_latest c) (c_latest s) /\ is_matching c s = true /\
      hlookup (c_latest s) (c_cons s) = Some e /\ cs_ptime e = Some pt /\ cs_pheight e = Some ph /\
      w' = set_client w a (recovered c s e).
  Proof.
    unfold recover_client. intros S.
    destruct (get_client w a) as [[c|ty]|] eqn:Ea; try (inversion S; fail).
    2:{ simpl in S. destruct (get_client w b) as [[s|ty]|]; try (inversion S; fail).
        destruct (negb (status_eqb (status (w_now w) s) Active)); try (inversion S; fail).
        destruct (h_gte (latest_of w a) (c_latest s)); inversion S. }
    destruct (status_eqb (status (w_now w) c) Active) eqn:SA; try (inversion S; fail).
    destruct (get_client w b) as [[s|ty]|] eqn:Eb; try (inversion S; fail).
    destruct (status_eqb (status (w_now w) s) Active) eqn:SB; simpl in S; try (inversion S; fail).
    destruct (h_gte (latest_of w a) (c_latest s)) eqn:GT; try (inversion S; fail).
    destruct (is_matching c s) eqn:IM; simpl in S; try (inversion S; fail).
    destruct (hlookup (c_latest s) (c_cons s)) as [e|] eqn:HL; try (inversion S; fail).
    destruct (cs_pheight e) as [ph|] eqn:PH; try (inversion S; fail).
    destruct (cs_ptime e) as [pt|] eqn:PT; try (inversion S; fail).
    inversion S; subst; clear S.
    exists c, s, e, pt, ph. repeat split; auto.
    - intros A. rewrite A in SA. discriminate.
    - apply status_eqb_eq; auto.
    - unfold latest_of in GT. rewrite Ea in GT. rewrite h_gte_lte in GT.
      destruct (h_compare_spec (c_latest c) (c_latest s)) as [[_ H]|[[_ H]|[_ H]]]; auto.
      + rewrite H in GT. rewrite h_lte_refl in GT. discriminate.
      + assert (h_lte (c_latest s) (c_latest c) = true) by (apply h_lte_iff; auto). congruence.
    - f_equal. unfold recovered.
      assert (F : c_frozen (if status_eqb (status (w_now w) c) Frozen then with_frozen c zero_height else c) = zero_height).
      { destruct (status_eqb (status (w_now w) c) Frozen) eqn:SF; simpl; auto.
        destruct (status (w_now w) c) eqn:St; try discriminate.
        - apply status_expired_iff in St. destruct St as [Z _]. unfold h_is_zero in Z.
          apply andb_true_iff in Z. destruct Z as [Z1 Z2]. apply N.eqb_eq in Z1, Z2.
          destruct (c_frozen c); simpl in *; subst; reflexivity.
        - exfalso. eapply status_never_unknown; eauto. }
      destruct (status_eqb (status (w_now w) c) Frozen); simpl in *; rewrite ?F; reflexivity.
  Qed.

  (** post-state consequences, spelled out *)
  Theorem recover_post w a b w' :
    recover_client w a b = (w', Ok) ->
    exists c s e c',
      get_client w a = Some (Tm c) /\ get_client w b = Some (Tm s) /\ a <> b /\
      get_client w' a = Some (Tm c') /\
      c_frozen c' = zero_height /\ c_latest c' = c_latest s /\
      hlookup (c_latest s) (c_cons s) = Some e /\ hlookup (c_latest s) (c_cons c') = Some e /\
      (forall h, h <> c_latest s -> hlookup h (c_cons c') = hlookup h (c_cons c)) /\
      c_chain c' = c_chain s /\ c_trusting c' = c_trusting s /\
      c_tl_num c' = c_tl_num c /\ c_tl_den c' = c_tl_den c /\ c_unbonding c' = c_unbonding c /\
      c_drift c' = c_drift c /\ c_specs c' = c_specs c /\ c_upath c' = c_upath c /\
      status (w_now w') c' = Active /\
      (forall cid, cid <> a -> get_client w' cid = get_client w cid) /\
      w_now w' = w_now w /\ w_self w' = w_self w.
  Proof.
    intros S. destruct (recover_ok_inv _ _ _ _ S) as (c & s & e & pt & ph & Ga & Gb & NA & SA & LT & IM & HL & PT & PH & ->).
    assert (NE : a <> b). { intros ->. rewrite Ga in Gb. inversion Gb; subst. contradiction. }
    exists c, s, e, (recovered c s e). rewrite get_set_same. repeat split; auto.
    - simpl. apply hlookup_hinsert_same.
    - intros h NEh. simpl. apply hlookup_hinsert_other; auto.
    - (* the recovered client is Active: it holds the substitute's latest consensus state and trusting period *)
      apply status_active_iff in SA. destruct SA as [_ [cs [H1 H2]]]. rewrite HL in H1. inversion H1; subst cs.
      apply status_active_iff. simpl. split; auto. exists e. split; [apply hlookup_hinsert_same|auto].
    - intros cid NEc. apply get_set_other; auto.
  Qed.

  (** ---- C25: upgrade ---- *)
  Definition upgraded (w : World) (c : Client) (u : UpgradeReq) (t : Z) : Client :=
    mkClient (c_chain (u_client u)) (c_tl_num c) (c_tl_den c) t (c_unbonding (u_client u)) (c_drift c) zero_height
             (c_latest (u_client u)) (c_specs (u_client u)) (c_upath (u_client u))
             (hinsert (c_latest (u_client u))
                      (mkCS (cs_ts (u_cons u)) sentinel_root (cs_nvh (u_cons u)) (Some (w_now w)) (Some (w_self w)))
                      (c_cons c)).

  Theorem upgrade_ok_inv w cid u w' :
    upgrade_client w cid u = (w', Ok) ->
    exists c e t,
      get_client w cid = Some (Tm c) /\ status (w_now w) c = Active /\
      lex_lt (c_latest c) (c_latest (u_client u)) /\ c_upath c <> [] /\
      hlookup (c_latest c) (c_cons c) = Some e /\
      vmem (c_specs c) (u_proof_client u) (cs_root e)
           (upgrade_path (c_upath c) (c_latest c) key_upgraded_client) (enc_client (zero_custom (u_client u))) = true /\
      vmem (c_specs c) (u_proof_cons u) (cs_root e)
           (upgrade_path (c_upath c) (c_latest c) key_upgraded_cons) (enc_cons (u_cons u)) = true /\
      (if (c_unbonding (u_client u) <? c_unbonding c)%Z
       then calc_new_trusting (c_trusting c) (c_unbonding c) (c_unbonding (u_client u)) = Some t
       else t = c_trusting c) /\
      validate_client (upgraded w c u t) = Some true /\
      w' = set_client w cid (upgraded w c u t).
  Proof.
    unfold World.upgrade_client. intros S.
    destruct (get_client w cid) as [[c|ty]|] eqn:G; try (inversion S; fail).
    destruct (status (w_now w) c) eqn:St; try (inversion S; fail).
    destruct (h_gt (c_latest (u_client u)) (c_latest c)) eqn:GT; simpl in S; try (inversion S; fail).
    destruct (c_upath c) as [|p0 ps] eqn:Eup; try (inversion S; fail).
    destruct (hlookup (c_latest c) (c_cons c)) as [e|] eqn:HL; try (inversion S; fail).
    destruct (vmem (c_specs c) (u_proof_client u) _ _ _) eqn:V1; simpl in S; try (inversion S; fail).
    destruct (vmem (c_specs c) (u_proof_cons u) _ _ _) eqn:V2; simpl in S; try (inversion S; fail).
    destruct (if (c_unbonding (u_client u) <? c_unbonding c)%Z then _ else _) as [t|] eqn:TR; try (inversion S; fail).
    destruct (validate_client _) as [[|]|] eqn:VC; try (inversion S; fail).
    inversion S; subst; clear S.
    exists c, e, t. repeat split; auto.
    - apply h_gt_iff; auto.
    - rewrite Eup. discriminate.
    - rewrite Eup. exact V1.
    - rewrite Eup. exact V2.
    - destruct (c_unbonding (u_client u) <? c_unbonding c)%Z; auto. inversion TR; auto.
  Qed.

  Theorem upgrade_post w cid u w' :
    upgrade_client w cid u = (w', Ok) ->
    exists c c' t,
      get_client w cid = Some (Tm c) /\ get_client w' cid = Some (Tm c') /\
      c_tl_num c' = c_tl_num c /\ c_tl_den c' = c_tl_den c /\ c_drift c' = c_drift c /\
      c_trusting c' = t /\
      (if (c_unbonding (u_client u) <? c_unbonding c)%Z
       then calc_new_trusting (c_trusting c) (c_unbonding c) (c_unbonding (u_client u)) = Some t
       else t = c_trusting c) /\
      c_chain c' = c_chain (u_client u) /\ c_unbonding c' = c_unbonding (u_client u) /\
      c_latest c' = c_latest (u_client u) /\ c_specs c' = c_specs (u_client u) /\
      c_upath c' = c_upath (u_client u) /\ c_frozen c' = zero_height /\
      hlookup (c_latest c') (c_cons c') =
        Some (mkCS (cs_ts (u_cons u)) sentinel_root (cs_nvh (u_cons u)) (Some (w_now w)) (Some (w_self w))) /\
      (forall h, h <> c_latest c' -> hlookup h (c_cons c') = hlookup h (c_cons c)) /\
      (forall cid', cid' <> cid -> get_client w' cid' = get_client w cid') /\
      w_now w' = w_now w /\ w_self w' = w_self w.
  Proof.
    intros S. destruct (upgrade_ok_inv _ _ _ _ S) as (c & e & t & G & St & LT & UP & HL & V1 & V2 & TR & VC & ->).
    exists c, (upgraded w c u t), t. rewrite get_set_same. repeat split; auto.
    - simpl. apply hlookup_hinsert_same.
    - intros h NEh. simpl. apply hlookup_hinsert_other; auto.
    - intros cid' NEc. apply get_set_other; auto.
  Qed.


  (** every client keeps a trust level that fits int64 over any history (only creation, which runs
      ClientState.Validate, chooses a trust level; upgrade re-validates and keeps it; recovery requires equality) *)
  Definition all_tl_fit (w : World) : Prop := forall cid c, get_client w cid = Some (Tm c) -> tl_fits c.

  Lemma set_client_tl_fit w cid c : all_tl_fit w -> tl_fits c -> all_tl_fit (set_client w cid c).
  Proof.
    intros A F cid' c' G. destruct (N.eq_dec cid' cid) as [->|NE].
    - rewrite get_set_same in G. inversion G; subst; auto.
    - rewrite get_set_other in G by auto. eapply A; eauto.
  Qed.

  Lemma step_tl_fit w o : all_tl_fit w -> all_tl_fit (fst (step w o)).
  Proof.
    intros A. destruct o; simpl; auto.
    - (* update *)
      unfold update_client. destruct (get_client w cid) as [[c|ty]|] eqn:G; simpl; auto.
      destruct (status (w_now w) c); simpl; auto.
      destruct (negb (msg_verified m)); simpl; auto.
      assert (F := A _ _ G).
      destruct (check_for_misbehaviour c m); simpl.
      + apply set_client_tl_fit; auto.
      + destruct m; simpl; auto. apply set_client_tl_fit; auto.
        unfold update_state, prune_oldest, tl_fits in *.
        destruct (hmin (c_cons c)) as [[hh e]|]; [destruct (is_expired c (cs_ts e) (w_now w))|];
          simpl; repeat (match goal with |- context [match ?x with _ => _ end] => destruct x end; simpl); auto.
    - (* recover *)
      unfold recover_client. destruct (get_client w subj) as [[c|ty]|] eqn:G; simpl; auto.
      + destruct (status_eqb (status (w_now w) c) Active); simpl; auto.
        destruct (get_client w subst) as [[s|ty]|]; simpl; auto.
        destruct (negb (status_eqb (status (w_now w) s) Active)); simpl; auto.
        destruct (h_gte (latest_of w subj) (c_latest s)); simpl; auto.
        destruct (negb (is_matching c s)); simpl; auto.
        destruct (hlookup (c_latest s) (c_cons s)) as [e|]; simpl; auto.
        destruct (cs_pheight e); simpl; auto. destruct (cs_ptime e); simpl; auto.
        apply set_client_tl_fit; auto. assert (F := A _ _ G). unfold tl_fits in *.
        destruct (status_eqb (status (w_now w) c) Frozen); simpl; auto.
      + destruct (get_client w subst) as [[s|ty]|]; simpl; auto.
        destruct (negb (status_eqb (status (w_now w) s) Active)); simpl; auto.
        destruct (h_gte (latest_of w subj) (c_latest s)); simpl; auto.
    - (* upgrade *)
      unfold World.upgrade_client. destruct (get_client w cid) as [[c|ty]|] eqn:G; simpl; auto.
      destruct (status (w_now w) c); simpl; auto.
      destruct (negb (h_gt (c_latest (u_client u)) (c_latest c))); simpl; auto.
      destruct (c_upath c) eqn:Eup; simpl; auto.
      destruct (hlookup (c_latest c) (c_cons c)) as [e|]; simpl; auto.
      destruct (negb (vmem _ _ _ _ _)); simpl; auto.
      destruct (negb (vmem _ _ _ _ _)); simpl; auto.
      destruct (if (c_unbonding (u_client u) <? c_unbonding c)%Z then _ else _) as [t|]; simpl; auto.
      destruct (validate_client _) as [[|]|]; simpl; auto.
      apply set_client_tl_fit; auto. exact (A _ _ G).
  Qed.

  Theorem run_tl_fit ops : forall w, all_tl_fit w -> all_tl_fit (run w ops).
  Proof. induction ops as [|o ops IH]; intros w A; simpl; auto. apply IH. apply step_tl_fit; auto. Qed.

  (** no operation changes any client other than its target — for whole histories of operations on one target *)
  Theorem run_frame ops : forall w cid,
    (forall o, In o ops -> op_target o <> Some cid) -> get_client (run w ops) cid = get_client w cid.
  Proof.
    induction ops as [|o ops IH]; intros w cid H; simpl; auto.
    rewrite IH; [apply step_frame|]; intros; apply H; simpl; auto.
  Qed.
End WithOracles.
