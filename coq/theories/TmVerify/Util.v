(** Helpers private to the TmVerify area: association maps keyed by [Height], int64 helpers,
    chain-id revision parsing (02-client/types/height.go). Definitions only (vm_compute-able). *)
From IBC Require Import Lib.Bytes Lib.Dec Core.Height.
Local Open Scope N_scope.

Definition height_eqb (a b : Height) : bool := (rev a =? rev b) && (ht a =? ht b).
Definition zero_height : Height := mkH 0 0.

(** finite map Height -> V as an association list without duplicate keys (insert removes first) *)
Section HMap.
  Context {V : Type}.
  Fixpoint hlookup (h : Height) (m : list (Height * V)) : option V :=
    match m with
    | [] => None
    | (k, v) :: m' => if height_eqb k h then Some v else hlookup h m'
    end.
  Fixpoint hremove (h : Height) (m : list (Height * V)) : list (Height * V) :=
    match m with
    | [] => []
    | (k, v) :: m' => if height_eqb k h then hremove h m' else (k, v) :: hremove h m'
    end.
  Definition hinsert (h : Height) (v : V) (m : list (Height * V)) : list (Height * V) :=
    (h, v) :: hremove h m.
  (** smallest key (ascending iteration starts here) *)
  Fixpoint hmin (m : list (Height * V)) : option (Height * V) :=
    match m with
    | [] => None
    | (k, v) :: m' =>
        match hmin m' with
        | None => Some (k, v)
        | Some (k', v') => if h_lt k k' then Some (k, v) else Some (k', v')
        end
    end.
  (** greatest key strictly below h / smallest key strictly above h *)
  Fixpoint hprev (h : Height) (m : list (Height * V)) : option (Height * V) :=
    match m with
    | [] => None
    | (k, v) :: m' =>
        let r := hprev h m' in
        if h_lt k h then
          match r with
          | Some (k', v') => if h_lt k' k then Some (k, v) else r
          | None => Some (k, v)
          end
        else r
    end.
  Fixpoint hnext (h : Height) (m : list (Height * V)) : option (Height * V) :=
    match m with
    | [] => None
    | (k, v) :: m' =>
        let r := hnext h m' in
        if h_gt k h then
          match r with
          | Some (k', v') => if h_lt k k' then Some (k, v) else r
          | None => Some (k, v)
          end
        else r
    end.
End HMap.

(** finite map N -> V, replace-in-place so the order of identifiers is stable *)
Section NMap.
  Context {V : Type}.
  Fixpoint nlookup (k : N) (m : list (N * V)) : option V :=
    match m with
    | [] => None
    | (k', v) :: m' => if k' =? k then Some v else nlookup k m'
    end.
  Fixpoint nset (k : N) (v : V) (m : list (N * V)) : list (N * V) :=
    match m with
    | [] => [(k, v)]
    | (k', v') :: m' => if k' =? k then (k, v) :: m' else (k', v') :: nset k v m'
    end.
End NMap.

(** int64 *)
Definition max_int64 : Z := 9223372036854775807%Z.
Definition min_int64 : Z := (-9223372036854775808)%Z.
Definition two63Z : Z := 9223372036854775808%Z.
Definition two64Z : Z := 18446744073709551616%Z.
(** int64(x) for a uint64 x: two's complement reinterpretation *)
Definition int64_of_uint64 (x : N) : Z :=
  let z := Z.of_N x in if (z <? two63Z)%Z then z else (z - two64Z)%Z.
(** wrap an arbitrary integer into int64 (Go arithmetic on int64 wraps) *)
Definition wrap64 (z : Z) : Z :=
  let m := (z mod two64Z)%Z in if (m <? two63Z)%Z then m else (m - two64Z)%Z.

(** ASCII white space (strings.TrimSpace; the non-ASCII Unicode spaces are not modelled) *)
Definition is_space (c : ascii) : bool :=
  let n := N_of_ascii c in (n =? 32) || ((9 <=? n) && (n <=? 13)).
Definition is_blank (s : bytes) : bool := forallb is_space s.

(** 02-client/types/height.go: IsRevisionFormat = ^.*[^\n-]-{1}[1-9][0-9]*$  (no flags: '.' excludes \n,
    '$' only at the very end).  The text splits at its last '-' into a non-empty segment that does not end in
    '-' (it cannot, being dash-free) and a decimal without leading zero; no byte of the text is '\n'. *)
Definition nl : ascii := ascii_of_N 10.
Definition is_pos_decimal (s : bytes) : bool :=
  match s with
  | d :: ds => is_digit d && negb (Ascii.eqb d "0"%char) && forallb is_digit ds
  | [] => false
  end.
Definition is_revision_format (s : bytes) : bool :=
  negb (existsb (Ascii.eqb nl) s) &&
  match List.rev (split_on dash s) with
  | last :: before :: _ => is_pos_decimal last && negb (match before with [] => true | _ => false end)
  | _ => false
  end.

(** ParseChainID: revision number, 0 when not in revision format, and (since fix d71d2e9; it used to panic) also
    0 when the regexp accepts a number that strconv.ParseUint rejects (more than 64 bits).
    [PRevPanic] is kept for the callers' Panic branches, which are now unreachable. *)
Inductive ParseRev := PRev (n : N) | PRevPanic.
Definition parse_chain_id (s : bytes) : ParseRev :=
  if is_revision_format s then
    match List.rev (split_on dash s) with
    | last :: _ => match parse_uint64 last with Some n => PRev n | None => PRev 0 end
    | [] => PRev 0
    end
  else PRev 0.

(** SetRevisionNumber on a chain id in revision format (caller checks the format) *)
Definition set_revision_number (s : bytes) (r : N) : bytes :=
  match List.rev (split_on dash s) with
  | _ :: before => join_with dash (List.rev (dec r :: before))
  | [] => s
  end.

Definition list_bytes_eqb (a b : list bytes) : bool :=
  (fix go (a b : list bytes) := match a, b with
     | [], [] => true
     | x :: a', y :: b' => bytes_eqb x y && go a' b'
     | _, _ => false end) a b.
