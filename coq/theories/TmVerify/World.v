(** 07-tendermint light client seen from 02-client: status, the status gates of every consumer, update /
    misbehaviour state transitions, recovery and upgrade, over a finite map of clients.

    Go sources modelled (branch order as in the code):
      modules/light-clients/07-tendermint/client_state.go   status, IsExpired, Validate, ZeroCustomFields,
                                                            verifyMembership / verifyNonMembership (delay 0)
      modules/light-clients/07-tendermint/update.go          UpdateState, pruneOldestConsensusState,
                                                            UpdateStateOnMisbehaviour
      modules/light-clients/07-tendermint/misbehaviour_handle.go  CheckForMisbehaviour
      modules/light-clients/07-tendermint/proposal_handle.go CheckSubstituteAndUpdateState, IsMatchingClientState
      modules/light-clients/07-tendermint/upgrade.go         VerifyUpgradeAndUpdateState, construct*MerklePath,
                                                            calculateNewTrustingPeriod (LegacyDec arithmetic)
      modules/light-clients/07-tendermint/light_client_module.go  RecoverClient, VerifyUpgradeAndUpdateState gate
      modules/core/02-client/keeper/client.go                UpdateClient, UpgradeClient, RecoverClient
      modules/core/02-client/keeper/keeper.go                VerifyMembership, VerifyNonMembership, GetClientStatus
      modules/core/04-channel/keeper/packet.go:SendPacket, handshake.go:ChanOpenInit, 03-connection ConnOpenInit
                                                            (the client-status gate and the zero-height check only)

    The byte-level client store (keys, iteration keys, pruning order proofs) is another area's model; here a
    client is the abstract record below.  VerifyClientMessage (header / misbehaviour verification, Light.v)
    enters as the boolean carried by the message, so every statement quantifies over all verifiers.
    Times are Z nanoseconds since the Unix epoch; time.Time.Add saturation (|t| > 292 years) is not modelled.
    A failing message leaves the store unchanged (baseapp runs each message on a cache context). *)
From IBC Require Import Lib.Bytes Lib.Dec Core.Height TmVerify.Util.
Local Open Scope N_scope.

Record ConsState := mkCS {
  cs_ts : Z;                      (* Timestamp *)
  cs_root : bytes;                (* Root.Hash *)
  cs_nvh : bytes;                 (* NextValidatorsHash *)
  cs_ptime : option Z;            (* processedTime metadata (uint64 ns) *)
  cs_pheight : option Height      (* processedHeight metadata *)
}.

Record Client := mkClient {
  c_chain : bytes;
  c_tl_num : N; c_tl_den : N;     (* TrustLevel *)
  c_trusting : Z; c_unbonding : Z; c_drift : Z;
  c_frozen : Height; c_latest : Height;
  c_specs : bytes;                (* ProofSpecs, opaque canonical encoding; [] = nil *)
  c_upath : list bytes;           (* UpgradePath *)
  c_cons : list (Height * ConsState)
}.

Inductive AnyClient := Tm (c : Client) | Other (ty : bytes).

Record World := mkW {
  w_now : Z;                      (* ctx.BlockTime() *)
  w_self : Height;                (* clienttypes.GetSelfHeight(ctx) *)
  w_clients : list (N * AnyClient)
}.

Inductive Status := Active | Frozen | Expired | Unknown.
Definition status_eqb (a b : Status) : bool :=
  match a, b with Active, Active | Frozen, Frozen | Expired, Expired | Unknown, Unknown => true | _, _ => false end.

Inductive Res := Ok | Err | Panic.
Definition res_eqb (a b : Res) : bool :=
  match a, b with Ok, Ok | Err, Err | Panic, Panic => true | _, _ => false end.

(** client_state.go:IsExpired  — !latestTimestamp.Add(trustingPeriod).After(now) *)
Definition is_expired (c : Client) (ts now : Z) : bool := negb (now <? ts + c_trusting c)%Z.

(** client_state.go:status *)
Definition status (now : Z) (c : Client) : Status :=
  if negb (h_is_zero (c_frozen c)) then Frozen
  else match hlookup (c_latest c) (c_cons c) with
       | None => Expired
       | Some cs => if is_expired c (cs_ts cs) now then Expired else Active
       end.

Definition get_client (w : World) (cid : N) : option AnyClient := nlookup cid (w_clients w).
Definition set_client (w : World) (cid : N) (c : Client) : World :=
  mkW (w_now w) (w_self w) (nset cid (Tm c) (w_clients w)).

Definition with_cons (c : Client) (m : list (Height * ConsState)) : Client :=
  mkClient (c_chain c) (c_tl_num c) (c_tl_den c) (c_trusting c) (c_unbonding c) (c_drift c)
           (c_frozen c) (c_latest c) (c_specs c) (c_upath c) m.
Definition with_latest (c : Client) (h : Height) : Client :=
  mkClient (c_chain c) (c_tl_num c) (c_tl_den c) (c_trusting c) (c_unbonding c) (c_drift c)
           (c_frozen c) h (c_specs c) (c_upath c) (c_cons c).
Definition with_frozen (c : Client) (h : Height) : Client :=
  mkClient (c_chain c) (c_tl_num c) (c_tl_den c) (c_trusting c) (c_unbonding c) (c_drift c)
           h (c_latest c) (c_specs c) (c_upath c) (c_cons c).

(** misbehaviour.go: FrozenHeight = {0,1} *)
Definition frozen_height : Height := mkH 0 1.

(** ---- client messages ------------------------------------------------------------------------- *)
Inductive Msg :=
| MHeader (trusted h : Height) (ts : Z) (root nvh : bytes) (verified : bool)
    (* Header: TrustedHeight, GetHeight(), Header.Time, Header.AppHash, Header.NextValidatorsHash;
       [verified] = result of VerifyClientMessage *)
| MMisb (h1 h2 : Height) (bh1 bh2 : bytes) (t1 t2 : Z) (verified : bool).
    (* Misbehaviour: heights, Commit.BlockID.Hash and Header.Time of Header1/Header2 *)

Definition msg_verified (m : Msg) : bool :=
  match m with MHeader _ _ _ _ _ v => v | MMisb _ _ _ _ _ _ v => v end.

(** misbehaviour_handle.go:CheckForMisbehaviour *)
Definition check_for_misbehaviour (c : Client) (m : Msg) : bool :=
  match m with
  | MHeader _ h ts root nvh _ =>
      match hlookup h (c_cons c) with
      | Some e =>
          (* reflect.DeepEqual(existing, header.ConsensusState()) — both decoded from protobuf *)
          negb ((cs_ts e =? ts)%Z && bytes_eqb (cs_root e) root && bytes_eqb (cs_nvh e) nvh)
      | None =>
          match hprev h (c_cons c) with
          | Some (_, p) => if negb (cs_ts p <? ts)%Z then true
                           else match hnext h (c_cons c) with
                                | Some (_, n) => negb (ts <? cs_ts n)%Z
                                | None => false
                                end
          | None => match hnext h (c_cons c) with
                    | Some (_, n) => negb (ts <? cs_ts n)%Z
                    | None => false
                    end
          end
      end
  | MMisb h1 h2 bh1 bh2 t1 t2 _ =>
      if h_eq h1 h2 then negb (bytes_eqb bh1 bh2)
      else negb (t2 <? t1)%Z          (* !Header1.Time.After(Header2.Time) *)
  end.

(** update.go:pruneOldestConsensusState — the callback stops at the first (lowest) height *)
Definition prune_oldest (now : Z) (c : Client) : Client :=
  match hmin (c_cons c) with
  | Some (h, e) => if is_expired c (cs_ts e) now then with_cons c (hremove h (c_cons c)) else c
  | None => c
  end.

(** update.go:UpdateState for a Header (deliver mode: prune first) *)
Definition update_state (w : World) (c : Client) (h : Height) (ts : Z) (root nvh : bytes) : Client :=
  let c1 := prune_oldest (w_now w) c in
  match hlookup h (c_cons c1) with
  | Some _ => c1                                        (* duplicate update: no-op *)
  | None =>
      let c2 := if h_gt h (c_latest c1) then with_latest c1 h else c1 in
      with_cons c2 (hinsert h (mkCS ts root nvh (Some (w_now w)) (Some (w_self w))) (c_cons c2))
  end.

(** 02-client/keeper/client.go:UpdateClient *)
Definition update_client (w : World) (cid : N) (m : Msg) : World * Res :=
  match get_client w cid with
  | Some (Tm c) =>
      match status (w_now w) c with
      | Active =>
          if negb (msg_verified m) then (w, Err)
          else if check_for_misbehaviour c m
               then (set_client w cid (with_frozen c frozen_height), Ok)   (* UpdateStateOnMisbehaviour *)
               else match m with
                    | MHeader _ h ts root nvh _ => (set_client w cid (update_state w c h ts root nvh), Ok)
                    | MMisb _ _ _ _ _ _ _ => (w, Ok)       (* UpdateState: not a header, nothing written *)
                    end
      | _ => (w, Err)
      end
  | Some (Other _) => (w, Err)      (* a tendermint message sent to a client of another type *)
  | None => (w, Err)                (* Status = Unknown *)
  end.

(** ---- proof verification gates ---------------------------------------------------------------- *)
Section Oracles.
  (** 23-commitment MerkleProof.VerifyMembership / VerifyNonMembership (ics23, a dependency):
      specs, proof bytes, root, key path, value.  A proof that does not unmarshal verifies nothing. *)
  Variable vmem : bytes -> bytes -> bytes -> list bytes -> bytes -> bool.
  Variable vnon : bytes -> bytes -> bytes -> list bytes -> bool.
  (** protobuf Any encodings used as proven values in the upgrade (cdc.MarshalInterface) *)
  Variable enc_client : Client -> bytes.
  Variable enc_cons : ConsState -> bytes.

  (** keeper.go:VerifyMembership + client_state.go:verifyMembership with zero delay periods *)
  Definition verify_membership (w : World) (cid : N) (h : Height) (proof : bytes) (path : list bytes)
             (value : bytes) : Res :=
    match get_client w cid with
    | Some (Tm c) =>
        match status (w_now w) c with
        | Active =>
            if h_lt (c_latest c) h then Err
            else match hlookup h (c_cons c) with
                 | None => Err
                 | Some e => if vmem (c_specs c) proof (cs_root e) path value then Ok else Err
                 end
        | _ => Err
        end
    | _ => Err
    end.

  Definition verify_non_membership (w : World) (cid : N) (h : Height) (proof : bytes) (path : list bytes) : Res :=
    match get_client w cid with
    | Some (Tm c) =>
        match status (w_now w) c with
        | Active =>
            if h_lt (c_latest c) h then Err
            else match hlookup h (c_cons c) with
                 | None => Err
                 | Some e => if vnon (c_specs c) proof (cs_root e) path then Ok else Err
                 end
        | _ => Err
        end
    | _ => Err
    end.

  (** packet.go:SendPacket — the part that consults the client (channel/connection preconditions hold,
      timeout not elapsed): status gate, zero-height check, timestamp lookup *)
  Definition send_gate (w : World) (cid : N) : Res :=
    match get_client w cid with
    | Some (Tm c) =>
        match status (w_now w) c with
        | Active =>
            if h_is_zero (c_latest c) then Err
            else match hlookup (c_latest c) (c_cons c) with Some _ => Ok | None => Err end
        | _ => Err
        end
    | _ => Err
    end.

  (** 03-connection ConnOpenInit, 04-channel ChanOpenInit / ChanCloseInit: GetClientStatus == Active *)
  Definition handshake_gate (w : World) (cid : N) : Res :=
    match get_client w cid with
    | Some (Tm c) => match status (w_now w) c with Active => Ok | _ => Err end
    | _ => Err
    end.

  (** ---- recovery ------------------------------------------------------------------------------ *)
  (** proposal_handle.go:IsMatchingClientState — LatestHeight, FrozenHeight, TrustingPeriod, ChainId and the two
      deprecated flags are overwritten on both copies, everything else must be DeepEqual *)
  Definition is_matching (a b : Client) : bool :=
    (c_tl_num a =? c_tl_num b) && (c_tl_den a =? c_tl_den b) &&
    (c_unbonding a =? c_unbonding b)%Z && (c_drift a =? c_drift b)%Z &&
    bytes_eqb (c_specs a) (c_specs b) && list_bytes_eqb (c_upath a) (c_upath b).

  Definition latest_of (w : World) (cid : N) : Height :=
    match get_client w cid with Some (Tm c) => c_latest c | _ => zero_height end.

  (** 02-client RecoverClient + light_client_module.go:RecoverClient + CheckSubstituteAndUpdateState.
      The subject is routed to 07-tendermint by its identifier; that module's Status/LatestHeight are then
      applied to the substitute's store, whose getClientState panics on a client state of another type. *)
  Definition recover_client (w : World) (subj subst : N) : World * Res :=
    match get_client w subj with
    | Some (Other _) => (w, Err)                       (* routed to another module: outside this model *)
    | osubj =>
        let subj_active := match osubj with
                           | Some (Tm c) => status_eqb (status (w_now w) c) Active
                           | _ => false end in
        if subj_active then (w, Err)
        else match get_client w subst with
             | Some (Other _) => (w, Panic)
             | None => (w, Err)                        (* Unknown <> Active *)
             | Some (Tm s) =>
                 if negb (status_eqb (status (w_now w) s) Active) then (w, Err)
                 else if h_gte (latest_of w subj) (c_latest s) then (w, Err)
                 else match osubj with
                      | Some (Tm c) =>
                          if negb (is_matching c s) then (w, Err)
                          else
                            let c1 := if status_eqb (status (w_now w) c) Frozen
                                      then with_frozen c zero_height else c in
                            match hlookup (c_latest s) (c_cons s) with
                            | None => (w, Err)
                            | Some e =>
                                match cs_pheight e, cs_ptime e with
                                | Some _, Some _ =>
                                    let c2 := mkClient (c_chain s) (c_tl_num c1) (c_tl_den c1) (c_trusting s)
                                                (c_unbonding c1) (c_drift c1) (c_frozen c1) (c_latest s)
                                                (c_specs c1) (c_upath c1)
                                                (hinsert (c_latest s) e (c_cons c1)) in
                                    (set_client w subj c2, Ok)
                                | _, _ => (w, Err)
                                end
                            end
                      | _ => (w, Err)                  (* subject client state not found *)
                      end
             end
    end.

  (** ---- upgrade ------------------------------------------------------------------------------- *)
  (** sdkmath.LegacyDec with 18 decimals: big.Int.Quo truncates toward zero *)
  Definition dec_prec : Z := 1000000000000000000%Z.
  Definition chop_round (d : Z) : Z :=                   (* chopPrecisionAndRound: banker's rounding *)
    let a := Z.abs d in
    let q := Z.quot a dec_prec in
    let r := Z.rem a dec_prec in
    let q' := if (r =? 0)%Z then q
              else match Z.compare r (Z.quot dec_prec 2) with
                   | Lt => q
                   | Gt => (q + 1)%Z
                   | Eq => if Z.even q then q else (q + 1)%Z
                   end in
    if (d <? 0)%Z then (- q')%Z else q'.
  Definition dec_new (i : Z) : Z := (i * dec_prec)%Z.       (* LegacyNewDec *)
  Definition dec_mul (a b : Z) : Z := chop_round (a * b).   (* Mul *)
  Definition dec_quo (a b : Z) : Z := chop_round (Z.quot (a * dec_prec * dec_prec) b).   (* Quo *)
  Definition dec_trunc (a : Z) : Z := Z.quot a dec_prec.    (* TruncateInt64 (value fits: see facts) *)

  (** upgrade.go:calculateNewTrustingPeriod(trusting, originalUnbonding, newUnbonding);
      None = panic (big.Int division by zero, or TruncateInt64 out of range) *)
  Definition calc_new_trusting (t ou nu : Z) : option Z :=
    if (ou =? 0)%Z then None
    else let r := dec_trunc (dec_quo (dec_mul (dec_new t) (dec_new nu)) (dec_new ou)) in
         if (min_int64 <=? r)%Z && (r <=? max_int64)%Z then Some r else None.   (* TruncateInt64 panics otherwise *)

  Definition sentinel_root : bytes := B "sentinel_root".

  (** upgrade.go:constructUpgradeClientMerklePath / ...ConsStateMerklePath:
      all keys but the last, then "<last>/<revision height>/upgradedClient" (resp. upgradedConsState).
      Caller guarantees a non-empty path ([upgrade_key] of [] is only reached after that check). *)
  Definition upgrade_path (up : list bytes) (h : Height) (leaf : bytes) : list bytes :=
    match List.rev up with
    | last :: front => List.rev front ++ [last ++ slash :: dec (ht h) ++ slash :: leaf]
    | [] => []
    end.

  (** client_state.go:ZeroCustomFields *)
  Definition zero_custom (c : Client) : Client :=
    mkClient (c_chain c) 0 0 0%Z (c_unbonding c) 0%Z zero_height (c_latest c) (c_specs c) (c_upath c) [].

  (** light.ValidateTrustLevel (uint64 arithmetic wraps) *)
  Definition valid_trust_level (n d : N) : bool :=
    negb (((n * 3) mod two64 <? d) || (d <? n) || (d =? 0)).
  (** client_state.go:Validate (fix 73282cb): numerator and denominator must not exceed MaxInt64, because
      CometBFT converts them to int64 when it tallies the trusted voting power *)
  Definition trust_level_fits (n d : N) : bool :=
    (Z.of_N n <=? max_int64)%Z && (Z.of_N d <=? max_int64)%Z.

  (** client_state.go:Validate; None = ParseChainID panic *)
  Definition validate_client (c : Client) : option bool :=
    if is_blank (c_chain c) then Some false
    else if (50 <? N.of_nat (length (c_chain c))) then Some false
    else if negb (valid_trust_level (c_tl_num c) (c_tl_den c)) then Some false
    else if negb (trust_level_fits (c_tl_num c) (c_tl_den c)) then Some false
    else if (c_trusting c <=? 0)%Z then Some false
    else if (c_unbonding c <=? 0)%Z then Some false
    else if (c_drift c <=? 0)%Z then Some false
    else match parse_chain_id (c_chain c) with
         | PRevPanic => None
         | PRev r =>
             if negb (rev (c_latest c) =? r) then Some false
             else if ht (c_latest c) =? 0 then Some false
             else if (c_unbonding c <=? c_trusting c)%Z then Some false
             else if match c_specs c with [] => true | _ => false end then Some false
             else Some (negb (existsb is_blank (c_upath c)))
         end.

  Record UpgradeReq := mkUR {
    u_client : Client;            (* upgraded client state as submitted (its c_cons is unused) *)
    u_cons : ConsState;           (* upgraded consensus state as submitted (metadata fields unused) *)
    u_proof_client : bytes;
    u_proof_cons : bytes
  }.

  Definition key_upgraded_client : bytes := B "upgradedClient".
  Definition key_upgraded_cons : bytes := B "upgradedConsState".

  (** 02-client UpgradeClient + light_client_module.go gate + upgrade.go:VerifyUpgradeAndUpdateState *)
  Definition upgrade_client (w : World) (cid : N) (u : UpgradeReq) : World * Res :=
    match get_client w cid with
    | Some (Tm c) =>
        match status (w_now w) c with
        | Active =>
            let uc := u_client u in
            if negb (h_gt (c_latest uc) (c_latest c)) then (w, Err)
            else match c_upath c with
                 | [] => (w, Err)
                 | _ =>
                     match hlookup (c_latest c) (c_cons c) with
                     | None => (w, Err)
                     | Some e =>
                         if negb (vmem (c_specs c) (u_proof_client u) (cs_root e)
                                       (upgrade_path (c_upath c) (c_latest c) key_upgraded_client)
                                       (enc_client (zero_custom uc))) then (w, Err)
                         else if negb (vmem (c_specs c) (u_proof_cons u) (cs_root e)
                                            (upgrade_path (c_upath c) (c_latest c) key_upgraded_cons)
                                            (enc_cons (u_cons u))) then (w, Err)
                         else
                           let tr := if (c_unbonding uc <? c_unbonding c)%Z
                                     then calc_new_trusting (c_trusting c) (c_unbonding c) (c_unbonding uc)
                                     else Some (c_trusting c) in
                           match tr with
                           | None => (w, Panic)
                           | Some t =>
                               let nc := mkClient (c_chain uc) (c_tl_num c) (c_tl_den c) t (c_unbonding uc)
                                           (c_drift c) zero_height (c_latest uc) (c_specs uc) (c_upath uc)
                                           (c_cons c) in
                               match validate_client nc with
                               | None => (w, Panic)
                               | Some false => (w, Err)
                               | Some true =>
                                   let ne := mkCS (cs_ts (u_cons u)) sentinel_root (cs_nvh (u_cons u))
                                                  (Some (w_now w)) (Some (w_self w)) in
                                   (set_client w cid (with_cons nc (hinsert (c_latest uc) ne (c_cons c))), Ok)
                               end
                           end
                     end
                 end
        | _ => (w, Err)
        end
    | _ => (w, Err)
    end.

  (** ---- histories ----------------------------------------------------------------------------- *)
  Inductive Op :=
  | OAdvance (dt : Z) (dh : N)
  | OUpdate (cid : N) (m : Msg)
  | OVerifyMem (cid : N) (h : Height) (proof : bytes) (path : list bytes) (value : bytes)
  | OVerifyNonMem (cid : N) (h : Height) (proof : bytes) (path : list bytes)
  | OSend (cid : N)
  | OConnInit (cid : N)
  | OChanInit (cid : N)
  | ORecover (subj subst : N)
  | OUpgrade (cid : N) (u : UpgradeReq).

  Definition step (w : World) (o : Op) : World * Res :=
    match o with
    | OAdvance dt dh => (mkW (w_now w + dt)%Z (mkH (rev (w_self w)) (ht (w_self w) + dh)) (w_clients w), Ok)
    | OUpdate cid m => update_client w cid m
    | OVerifyMem cid h p path v => (w, verify_membership w cid h p path v)
    | OVerifyNonMem cid h p path => (w, verify_non_membership w cid h p path)
    | OSend cid => (w, send_gate w cid)
    | OConnInit cid => (w, handshake_gate w cid)
    | OChanInit cid => (w, handshake_gate w cid)
    | ORecover a b => recover_client w a b
    | OUpgrade cid u => upgrade_client w cid u
    end.

  Fixpoint run (w : World) (ops : list Op) : World :=
    match ops with
    | [] => w
    | o :: ops' => run (fst (step w o)) ops'
    end.

  (** the client an operation uses (its Ok must imply that this client is Active) *)
  Definition op_client (o : Op) : option N :=
    match o with
    | OAdvance _ _ => None
    | OUpdate cid _ | OVerifyMem cid _ _ _ _ | OVerifyNonMem cid _ _ _ | OSend cid | OConnInit cid
    | OChanInit cid | OUpgrade cid _ => Some cid
    | ORecover _ subst => Some subst
    end.
  (** the only client an operation may write *)
  Definition op_target (o : Op) : option N :=
    match o with
    | OUpdate cid _ | OUpgrade cid _ => Some cid
    | ORecover subj _ => Some subj
    | _ => None
    end.
End Oracles.
