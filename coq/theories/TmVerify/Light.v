(** placeholder, replaced by the CometBFT light-client model *)
From IBC Require Import Lib.Bytes.
Inductive LCase := LNone.
Definition light_check (c : LCase) : bool := true.
