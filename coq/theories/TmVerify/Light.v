(** Header and misbehaviour verification of the 07-tendermint client, with the CometBFT light-client
    verification it calls re-modelled from the dependency source (cometbft v0.40.0).

    ibc-go:    modules/light-clients/07-tendermint/update.go            verifyHeader, checkTrustedHeader
               modules/light-clients/07-tendermint/misbehaviour_handle.go verifyMisbehaviour, checkMisbehaviourHeader
               modules/light-clients/07-tendermint/misbehaviour.go      Misbehaviour.ValidateBasic, validCommit
               modules/light-clients/07-tendermint/header.go            Header.ValidateBasic, GetHeight
    cometbft:  light/verifier.go     Verify, VerifyAdjacent, VerifyNonAdjacent, verifyNewHeaderAndVals, HeaderExpired
               types/validation.go   VerifyCommitLight(+WithCache), VerifyCommitLightTrusting(+WithCache),
                                     verifyBasicValsAndCommit, verifyCommitSingle (the batch path has the same
                                     verdict: signatures are taken in order until the tally exceeds the need, and every
                                     signature taken must verify; checked by the correspondence, which runs the
                                     batch path because the test validators use ed25519)
               types/validator_set.go ValidatorSetFromProto, ValidateBasic, TotalVotingPowerSafe, safeAddClip, safeMul
               types/block.go / light.go  Header.ValidateBasic, Commit.ValidateBasic, CommitSig.ValidateBasic,
                                     BlockID.ValidateBasic, SignedHeader.ValidateBasic, Commit.VoteSignBytes
    Unmodelled externals are Section variables: signature verification, the canonical vote encoding, the
    validator-set and header Merkle hashes, the address derivation of a public key.
    Times are Z nanoseconds; int64 arithmetic the code performs on heights is written with explicit wrap. *)
From IBC Require Import Lib.Bytes Lib.Dec Core.Height TmVerify.Util TmVerify.World.
Local Open Scope Z_scope.

Record Validator := mkVal { v_addr : bytes; v_pk : bytes; v_power : Z }.
Record ValSet := mkVS { vs_vals : list Validator; vs_prop : option Validator }.
Record BlockID := mkBID { bi_hash : bytes; bi_total : N; bi_phash : bytes }.
Record CommitSig := mkSig { s_flag : N; s_addr : bytes; s_ts : Z; s_sig : bytes }.
Record Commit := mkCommit { cm_height : Z; cm_round : Z; cm_bid : BlockID; cm_sigs : list CommitSig }.
Record Header := mkHdr {
  hd_block : N; hd_app : N; hd_chain : bytes; hd_height : Z; hd_time : Z; hd_last : BlockID;
  hd_last_commit : bytes; hd_data : bytes; hd_vals : bytes; hd_next_vals : bytes; hd_cons : bytes;
  hd_apphash : bytes; hd_results : bytes; hd_evidence : bytes; hd_proposer : bytes }.
(** ibctm.Header: SignedHeader{Header, Commit}, ValidatorSet, TrustedHeight, TrustedValidators *)
Record TmHeader := mkTH {
  th_hdr : Header; th_commit : Commit; th_vals : option ValSet;
  th_trusted : Height; th_tvals : option ValSet }.

(** the canonical precommit vote a validator signs (types.CanonicalizeVote) *)
Record VoteMsg := mkVM { vm_chain : bytes; vm_height : Z; vm_round : Z; vm_bid : BlockID; vm_ts : Z }.

Definition flag_absent : N := 1%N.
Definition flag_commit : N := 2%N.
Definition flag_nil : N := 3%N.
Definition block_protocol : N := 11%N.
Definition max_total_power : Z := max_int64 / 8.
Definition zero_time : Z := -62135596800000000000.      (* time.Time{} *)
Definition max_signature_size : N := 3309%N.            (* types.MaxSignatureSize = max(ed25519 64, bls12381 96, mldsa65 3309) *)

Definition blockid_eqb (a b : BlockID) : bool :=
  bytes_eqb (bi_hash a) (bi_hash b) && (bi_total a =? bi_total b)%N && bytes_eqb (bi_phash a) (bi_phash b).
Definition len (s : bytes) : N := N.of_nat (length s).
Definition hash_len_ok (s : bytes) : bool := (len s =? 0)%N || (len s =? 32)%N.      (* types.ValidateHash *)
Definition blockid_ok (b : BlockID) : bool := hash_len_ok (bi_hash b) && hash_len_ok (bi_phash b).
Definition blockid_is_zero (b : BlockID) : bool :=
  (len (bi_hash b) =? 0)%N && (bi_total b =? 0)%N && (len (bi_phash b) =? 0)%N.

(** validator_set.go:safeAddClip / safeMul *)
Definition safe_add_clip (a b : Z) : Z :=
  let s := a + b in if max_int64 <? s then max_int64 else if s <? min_int64 then min_int64 else s.
Definition safe_mul (a b : Z) : option Z :=        (* None = overflow reported *)
  if (a =? 0) || (b =? 0) then Some 0
  else
    let absb := if b <? 0 then wrap64 (- b) else b in
    let absa := if a <? 0 then wrap64 (- a) else a in
    if absa >? Z.quot max_int64 absb then None else Some (wrap64 (a * b)).

(** updateTotalVotingPower: error as soon as the clipped running sum exceeds MaxTotalVotingPower *)
Fixpoint total_power_from (acc : Z) (l : list Validator) : option Z :=
  match l with
  | [] => Some acc
  | v :: l' => let s := safe_add_clip acc (v_power v) in
               if max_total_power <? s then None else total_power_from s l'
  end.
Definition total_power (l : list Validator) : option Z := total_power_from 0 l.

(** CommitSig.ValidateBasic *)
Definition sig_basic_ok (s : CommitSig) : bool :=
  if (s_flag s =? flag_absent)%N then
    (len (s_addr s) =? 0)%N && (s_ts s =? zero_time) && (len (s_sig s) =? 0)%N
  else if (s_flag s =? flag_commit)%N || (s_flag s =? flag_nil)%N then
    (len (s_addr s) =? 20)%N && negb (len (s_sig s) =? 0)%N && (len (s_sig s) <=? max_signature_size)%N
  else false.

(** Commit.ValidateBasic, preceded by BlockID validation of CommitFromProto *)
Definition commit_basic_ok (c : Commit) : bool :=
  blockid_ok (cm_bid c) &&
  negb (cm_height c <? 0) && negb (cm_round c <? 0) &&
  (if 1 <=? cm_height c
   then negb (blockid_is_zero (cm_bid c)) && negb (match cm_sigs c with [] => true | _ => false end) &&
        forallb sig_basic_ok (cm_sigs c)
   else true).

(** types.Header.ValidateBasic *)
Definition header_basic_ok (h : Header) : bool :=
  (hd_block h =? block_protocol)%N && (len (hd_chain h) <=? 50)%N && (0 <? hd_height h) &&
  blockid_ok (hd_last h) && hash_len_ok (hd_last_commit h) && hash_len_ok (hd_data h) &&
  hash_len_ok (hd_evidence h) && (len (hd_proposer h) =? 20)%N && hash_len_ok (hd_vals h) &&
  hash_len_ok (hd_next_vals h) && hash_len_ok (hd_cons h) && hash_len_ok (hd_results h).

Section Light.
  Variable sig_ok : bytes -> bytes -> bytes -> bool.        (* PubKey.VerifySignature(msg, sig) *)
  Variable vote_bytes : VoteMsg -> bytes.                   (* protobuf-delimited CanonicalVote *)
  Variable vals_hash : list Validator -> bytes.             (* ValidatorSet.Hash *)
  Variable header_hash : Header -> bytes.                   (* Header.Hash *)
  Variable pk_addr : bytes -> bytes.                        (* PubKey.Address *)

  (** Validator.ValidateBasic *)
  Definition validator_ok (v : Validator) : bool :=
    negb (v_power v <? 0) && bytes_eqb (v_addr v) (pk_addr (v_pk v)).

  (** ValidatorSetFromProto: conversion, TotalVotingPowerSafe, ValidateBasic.  Some l = the validators. *)
  Definition valset_from_proto (o : option ValSet) : option (list Validator) :=
    match o with
    | None => None
    | Some s =>
        match vs_prop s with
        | None => None
        | Some p =>
            match total_power (vs_vals s) with
            | None => None
            | Some _ =>
                if match vs_vals s with [] => true | _ => false end then None
                else if negb (forallb validator_ok (vs_vals s)) then None
                else if negb (validator_ok p) then None
                else if negb (existsb (fun v => bytes_eqb (v_addr v) (v_addr p)) (vs_vals s)) then None
                else Some (vs_vals s)
            end
        end
    end.

  (** the message whose signature is checked for commit signature [s] (Commit.VoteSignBytes): the vote is for
      the commit's block id because only BlockIDFlagCommit signatures are ever verified *)
  Definition sign_msg (chain : bytes) (c : Commit) (s : CommitSig) : VoteMsg :=
    mkVM chain (cm_height c) (cm_round c) (cm_bid c) (s_ts s).

  (** SignatureCache: signature bytes -> (validator address, sign bytes) *)
  Definition Cache := list (bytes * bytes * bytes).
  Definition cache_hit (cache : Cache) (sg addr msg : bytes) : bool :=
    match find (fun e => bytes_eqb (fst (fst e)) sg) cache with
    | Some e => bytes_eqb (snd (fst e)) addr && bytes_eqb (snd e) msg
    | None => false
    end.
  Definition cache_add (cache : Cache) (sg addr msg : bytes) : Cache :=
    (sg, addr, msg) :: filter (fun e => negb (bytes_eqb (fst (fst e)) sg)) cache.

  Definition sig_valid (cache : Cache) (chain : bytes) (c : Commit) (v : Validator) (s : CommitSig) : bool :=
    let msg := vote_bytes (sign_msg chain c s) in
    cache_hit cache (s_sig s) (pk_addr (v_pk v)) msg || sig_ok (v_pk v) msg (s_sig s).

  (** verifyCommitSingle with lookUpByIndex = true, ignore = not BlockIDFlagCommit, count = all,
      countAllSignatures = false *)
  Fixpoint light_loop (chain : bytes) (c : Commit) (needed : Z) (cache : Cache) (tally : Z)
           (vs : list Validator) (ss : list CommitSig) : bool * Cache :=
    match vs, ss with
    | v :: vs', s :: ss' =>
        if negb (s_flag s =? flag_commit)%N then light_loop chain c needed cache tally vs' ss'
        else if negb (bytes_eqb (v_addr v) (s_addr s)) then (false, cache)
        else if negb (sig_valid cache chain c v s) then (false, cache)
        else
          let cache' := cache_add cache (s_sig s) (pk_addr (v_pk v)) (vote_bytes (sign_msg chain c s)) in
          let tally' := tally + v_power v in
          if needed <? tally' then (true, cache')
          else light_loop chain c needed cache' tally' vs' ss'
    | _, _ => (negb (tally <=? needed), cache)
    end.

  (** VerifyCommitLight(+WithCache): verifyBasicValsAndCommit, then > 2/3 *)
  Definition verify_commit_light (chain : bytes) (vals : list Validator) (bid : BlockID) (height : Z)
             (c : Commit) (cache : Cache) : bool * Cache :=
    if negb (N.of_nat (length vals) =? N.of_nat (length (cm_sigs c)))%N then (false, cache)
    else if negb (height =? cm_height c) then (false, cache)
    else if negb (blockid_eqb bid (cm_bid c)) then (false, cache)
    else match total_power vals with
         | None => (false, cache)                 (* TotalVotingPower() would panic; excluded by ValidatorSetFromProto *)
         | Some total => light_loop chain c (Z.quot (total * 2) 3) cache 0 vals (cm_sigs c)
         end.

  (** ValidatorSet.GetByAddress: first validator with that address *)
  Fixpoint find_val (addr : bytes) (i : N) (vs : list Validator) : option (N * Validator) :=
    match vs with
    | [] => None
    | v :: vs' => if bytes_eqb (v_addr v) addr then Some (i, v) else find_val addr (N.succ i) vs'
    end.

  (** verifyCommitSingle with lookUpByIndex = false *)
  Fixpoint trusting_loop (chain : bytes) (c : Commit) (needed : Z) (vals : list Validator) (cache : Cache)
           (seen : list N) (tally : Z) (ss : list CommitSig) : bool * Cache :=
    match ss with
    | s :: ss' =>
        if negb (s_flag s =? flag_commit)%N then trusting_loop chain c needed vals cache seen tally ss'
        else match find_val (s_addr s) 0%N vals with
             | None => trusting_loop chain c needed vals cache seen tally ss'
             | Some (i, v) =>
                 if existsb (N.eqb i) seen then (false, cache)            (* double vote *)
                 else if negb (sig_valid cache chain c v s) then (false, cache)
                 else
                   let cache' := cache_add cache (s_sig s) (pk_addr (v_pk v)) (vote_bytes (sign_msg chain c s)) in
                   let tally' := tally + v_power v in
                   if needed <? tally' then (true, cache')
                   else trusting_loop chain c needed vals cache' (i :: seen) tally' ss'
             end
    | [] => (negb (tally <=? needed), cache)
    end.

  (** int64(trustLevel.Numerator), int64(trustLevel.Denominator); the quotient is Go's truncating division *)
  Definition trust_needed (total : Z) (num den : N) : option Z :=
    if (den =? 0)%N then None
    else match safe_mul total (int64_of_uint64 num) with
         | None => None
         | Some p => Some (Z.quot p (int64_of_uint64 den))
         end.

  (** VerifyCommitLightTrusting(+WithCache) *)
  Definition verify_commit_light_trusting (chain : bytes) (vals : list Validator) (c : Commit) (num den : N)
             (cache : Cache) : bool * Cache :=
    match total_power vals with
    | None => (false, cache)
    | Some total =>
        match trust_needed total num den with
        | None => (false, cache)
        | Some needed => trusting_loop chain c needed vals cache [] 0 (cm_sigs c)
        end
    end.

  (** SignedHeader.ValidateBasic(chainID) *)
  Definition signed_header_basic_ok (chain : bytes) (h : Header) (c : Commit) : bool :=
    header_basic_ok h && commit_basic_ok c && bytes_eqb (hd_chain h) chain &&
    (cm_height c =? hd_height h) && bytes_eqb (header_hash h) (bi_hash (cm_bid c)).

  (** light.verifyNewHeaderAndVals *)
  Definition verify_new_header_and_vals (h : Header) (c : Commit) (vals : list Validator)
             (tchain : bytes) (theight ttime now drift : Z) : bool :=
    signed_header_basic_ok tchain h c &&
    negb (hd_height h <=? theight) &&
    (ttime <? hd_time h) &&                         (* untrusted.Time.After(trusted.Time) *)
    (hd_time h <? now + drift) &&                   (* untrusted.Time.Before(now.Add(maxClockDrift)) *)
    bytes_eqb (hd_vals h) (vals_hash vals).

  (** light.HeaderExpired *)
  Definition header_expired (ttime trusting now : Z) : bool := negb (now <? ttime + trusting).

  (** light.Verify = VerifyAdjacent / VerifyNonAdjacent; trusted header = (chain id, height, time, next vals hash) *)
  Definition light_verify (tchain : bytes) (theight ttime : Z) (tnvh : bytes) (tvals : list Validator)
             (h : Header) (c : Commit) (vals : list Validator) (trusting now drift : Z) (num den : N) : bool :=
    if negb (hd_height h =? wrap64 (theight + 1)) then
      (* VerifyNonAdjacent *)
      if header_expired ttime trusting now then false
      else if negb (verify_new_header_and_vals h c vals tchain theight ttime now drift) then false
      else
        let '(ok1, cache) := verify_commit_light_trusting tchain tvals c num den [] in
        if negb ok1 then false
        else fst (verify_commit_light tchain vals (cm_bid c) (hd_height h) c cache)
    else
      (* VerifyAdjacent *)
      if header_expired ttime trusting now then false
      else if negb (verify_new_header_and_vals h c vals tchain theight ttime now drift) then false
      else if negb (bytes_eqb (hd_vals h) tnvh) then false
      else fst (verify_commit_light tchain vals (cm_bid c) (hd_height h) c []).

  (** header.go:GetHeight — revision from the header's chain id, uint64(Header.Height) *)
  Definition uint64_of_int64 (z : Z) : N := Z.to_N (z mod two64Z).
  Definition header_height (h : Header) : option Height :=       (* None = ParseChainID panic *)
    match parse_chain_id (hd_chain h) with
    | PRev r => Some (mkH r (uint64_of_int64 (hd_height h)))
    | PRevPanic => None
    end.

  (** SignedHeaderFromProto: HeaderFromProto (ValidateBasic) and CommitFromProto (ValidateBasic) *)
  Definition signed_header_from_proto_ok (h : Header) (c : Commit) : bool :=
    header_basic_ok h && commit_basic_ok c.

  (** update.go:checkTrustedHeader *)
  Definition check_trusted_header (tv : option ValSet) (cs : ConsState) : bool :=
    match valset_from_proto tv with
    | None => false
    | Some tvals => bytes_eqb (cs_nvh cs) (vals_hash tvals)
    end.

  (** update.go:verifyHeader *)
  Definition verify_header (cl : Client) (now : Z) (th : TmHeader) : Res :=
    match hlookup (th_trusted th) (c_cons cl) with
    | None => Err
    | Some cs =>
        if negb (check_trusted_header (th_tvals th) cs) then Err
        else match header_height (th_hdr th) with
             | None => Panic
             | Some hh =>
                 if negb (rev hh =? rev (th_trusted th))%N then Err
                 else match valset_from_proto (th_tvals th) with
                      | None => Err
                      | Some tvals =>
                          if negb (signed_header_from_proto_ok (th_hdr th) (th_commit th)) then Err
                          else match valset_from_proto (th_vals th) with
                               | None => Err
                               | Some vals =>
                                   if h_lte hh (th_trusted th) then Err
                                   else if light_verify (c_chain cl) (int64_of_uint64 (ht (th_trusted th)))
                                             (cs_ts cs) (cs_nvh cs) tvals (th_hdr th) (th_commit th) vals
                                             (c_trusting cl) now (c_drift cl) (c_tl_num cl) (c_tl_den cl)
                                        then Ok else Err
                               end
                      end
             end
    end.

  (** header.go:Header.ValidateBasic *)
  Definition tm_header_basic (th : TmHeader) : Res :=
    if negb (signed_header_from_proto_ok (th_hdr th) (th_commit th)) then Err
    else if negb (signed_header_basic_ok (hd_chain (th_hdr th)) (th_hdr th) (th_commit th)) then Err
    else match header_height (th_hdr th) with
         | None => Panic
         | Some hh =>
             if h_gte (th_trusted th) hh then Err
             else match th_vals th with
                  | None => Err
                  | Some _ =>
                      match valset_from_proto (th_vals th) with
                      | None => Err
                      | Some vals => if bytes_eqb (hd_vals (th_hdr th)) (vals_hash vals) then Ok else Err
                      end
                  end
         end.

  (** misbehaviour.go:validCommit *)
  Definition valid_commit (th : TmHeader) : bool :=
    commit_basic_ok (th_commit th) &&
    match valset_from_proto (th_vals th) with
    | None => false
    | Some vals => fst (verify_commit_light (hd_chain (th_hdr th)) vals (cm_bid (th_commit th))
                                           (cm_height (th_commit th)) (th_commit th) [])
    end.

  (** misbehaviour.go:Misbehaviour.ValidateBasic (client identifier assumed well-formed) *)
  Definition misb_basic (h1 h2 : TmHeader) : Res :=
    if (ht (th_trusted h1) =? 0)%N then Err
    else if (ht (th_trusted h2) =? 0)%N then Err
    else match th_tvals h1, th_tvals h2 with
         | Some _, Some _ =>
             if negb (bytes_eqb (hd_chain (th_hdr h1)) (hd_chain (th_hdr h2))) then Err
             else match tm_header_basic h1 with
                  | Ok =>
                      match tm_header_basic h2 with
                      | Ok =>
                          match header_height (th_hdr h1), header_height (th_hdr h2) with
                          | Some a, Some b =>
                              if h_lt a b then Err
                              else if negb (blockid_ok (cm_bid (th_commit h1))) then Err
                              else if negb (blockid_ok (cm_bid (th_commit h2))) then Err
                              else if negb (valid_commit h1) then Err
                              else if valid_commit h2 then Ok else Err
                          | _, _ => Panic
                          end
                      | r => r
                      end
                  | r => r
                  end
         | _, _ => Err
         end.

  (** misbehaviour_handle.go:checkMisbehaviourHeader *)
  Definition check_misbehaviour_header (cl : Client) (cs : ConsState) (th : TmHeader) (now : Z) : Res :=
    match valset_from_proto (th_tvals th) with
    | None => Err
    | Some tvals =>
        if negb (commit_basic_ok (th_commit th)) then Err
        else if negb (check_trusted_header (th_tvals th) cs) then Err
        else if c_trusting cl <=? now - cs_ts cs then Err
        else
          let chain :=
            if is_revision_format (c_chain cl) then
              match header_height (th_hdr th) with
              | Some hh => Some (set_revision_number (c_chain cl) (rev hh))
              | None => None
              end
            else Some (c_chain cl) in
          match chain with
          | None => Panic
          | Some ch =>
              if fst (verify_commit_light_trusting ch tvals (th_commit th) (c_tl_num cl) (c_tl_den cl) [])
              then Ok else Err
          end
    end.

  (** misbehaviour_handle.go:verifyMisbehaviour *)
  Definition verify_misbehaviour (cl : Client) (now : Z) (h1 h2 : TmHeader) : Res :=
    match hlookup (th_trusted h1) (c_cons cl) with
    | None => Err
    | Some cs1 =>
        match hlookup (th_trusted h2) (c_cons cl) with
        | None => Err
        | Some cs2 =>
            match check_misbehaviour_header cl cs1 h1 now with
            | Ok => check_misbehaviour_header cl cs2 h2 now
            | r => r
            end
        end
    end.

  (** the World-level message of a misbehaviour submission, and whether it freezes the client:
      02-client UpdateClient = VerifyClientMessage, then CheckForMisbehaviour, then UpdateStateOnMisbehaviour *)
  Definition misb_msg (cl : Client) (now : Z) (h1 h2 : TmHeader) : option Msg :=
    match header_height (th_hdr h1), header_height (th_hdr h2) with
    | Some a, Some b =>
        Some (MMisb a b (bi_hash (cm_bid (th_commit h1))) (bi_hash (cm_bid (th_commit h2)))
                    (hd_time (th_hdr h1)) (hd_time (th_hdr h2))
                    (res_eqb (verify_misbehaviour cl now h1 h2) Ok))
    | _, _ => None
    end.
  Definition misbehaviour_freezes (cl : Client) (now : Z) (h1 h2 : TmHeader) : bool :=
    match misb_msg cl now h1 h2 with
    | Some m => msg_verified m && check_for_misbehaviour cl m
    | None => false
    end.

  (** ---- what "enough voting power" means, as executable counts -------------------------------------- *)
  (** power of the validators of the header's own set whose commit signature (same index, same address,
      BlockIDFlagCommit) is valid for the sign bytes of this chain id and commit *)
  Fixpoint signed_power (cache : Cache) (chain : bytes) (c : Commit) (vs : list Validator) (ss : list CommitSig) : Z :=
    match vs, ss with
    | v :: vs', s :: ss' =>
        (if (s_flag s =? flag_commit)%N && bytes_eqb (v_addr v) (s_addr s) &&
            (existsb (fun e => bytes_eqb (snd (fst e)) (pk_addr (v_pk v)) && bytes_eqb (fst (fst e)) (s_sig s) &&
                               bytes_eqb (snd e) (vote_bytes (sign_msg chain c s))) cache
             || sig_ok (v_pk v) (vote_bytes (sign_msg chain c s)) (s_sig s))
         then v_power v else 0) + signed_power cache chain c vs' ss'
    | _, _ => 0
    end.

  (** power of the distinct validators of the trusted set (found by address) with a valid BlockIDFlagCommit
      signature in the commit; each validator is counted at most once *)
  Fixpoint trusted_signed_power (chain : bytes) (c : Commit) (vals : list Validator) (seen : list N)
           (ss : list CommitSig) : Z :=
    match ss with
    | s :: ss' =>
        if (s_flag s =? flag_commit)%N then
          match find_val (s_addr s) 0%N vals with
          | Some (i, v) =>
              if existsb (N.eqb i) seen then trusted_signed_power chain c vals seen ss'
              else (if sig_ok (v_pk v) (vote_bytes (sign_msg chain c s)) (s_sig s) then v_power v else 0)
                   + trusted_signed_power chain c vals (i :: seen) ss'
          | None => trusted_signed_power chain c vals seen ss'
          end
        else trusted_signed_power chain c vals seen ss'
    | [] => 0
    end.
End Light.

(** ---- correspondence cases (evaluated by Corr/TmVerify.v) ------------------------------------------- *)
Definition validator_eqb (a b : Validator) : bool :=
  bytes_eqb (v_addr a) (v_addr b) && bytes_eqb (v_pk a) (v_pk b) && (v_power a =? v_power b).
Fixpoint vals_eqb (a b : list Validator) : bool :=
  match a, b with
  | [], [] => true
  | x :: a', y :: b' => validator_eqb x y && vals_eqb a' b'
  | _, _ => false
  end.
Definition header_eqb (a b : Header) : bool :=
  (hd_block a =? hd_block b)%N && (hd_app a =? hd_app b)%N && bytes_eqb (hd_chain a) (hd_chain b) &&
  (hd_height a =? hd_height b) && (hd_time a =? hd_time b) && blockid_eqb (hd_last a) (hd_last b) &&
  bytes_eqb (hd_last_commit a) (hd_last_commit b) && bytes_eqb (hd_data a) (hd_data b) &&
  bytes_eqb (hd_vals a) (hd_vals b) && bytes_eqb (hd_next_vals a) (hd_next_vals b) &&
  bytes_eqb (hd_cons a) (hd_cons b) && bytes_eqb (hd_apphash a) (hd_apphash b) &&
  bytes_eqb (hd_results a) (hd_results b) && bytes_eqb (hd_evidence a) (hd_evidence b) &&
  bytes_eqb (hd_proposer a) (hd_proposer b).

(** tables recorded from the real functions *)
Record LTables := mkLT {
  lt_sigs : list (bytes * bytes * bytes);          (* (public key, chain id, signature) that verify *)
  lt_vhash : list (list Validator * bytes);        (* ValidatorSet.Hash *)
  lt_hhash : list (Header * bytes);                (* Header.Hash *)
  lt_addr : list (bytes * bytes)                   (* PubKey.Address *)
}.
Definition tbl_sig_ok (T : LTables) (pk msg sg : bytes) : bool :=
  existsb (fun '(p, m, s) => bytes_eqb p pk && bytes_eqb m msg && bytes_eqb s sg) (lt_sigs T).
(** the recorded validity is per (key, chain id, signature): height, round, block id and timestamp of the vote
    are those of the commit the signature sits in, so the chain id is the only free part of the sign bytes *)
Definition tbl_vote_bytes (m : VoteMsg) : bytes := vm_chain m.
Definition tbl_vals_hash (T : LTables) (l : list Validator) : bytes :=
  match find (fun x => vals_eqb (fst x) l) (lt_vhash T) with Some x => snd x | None => B "?vals" end.
Definition tbl_header_hash (T : LTables) (h : Header) : bytes :=
  match find (fun x => header_eqb (fst x) h) (lt_hhash T) with Some x => snd x | None => B "?hdr" end.
Definition tbl_pk_addr (T : LTables) (pk : bytes) : bytes :=
  match find (fun x => bytes_eqb (fst x) pk) (lt_addr T) with Some x => snd x | None => B "?addr" end.

Inductive LCase :=
| LHeader (T : LTables) (cl : Client) (now : Z) (th : TmHeader) (basic verdict : Res)
| LMisb (T : LTables) (cl : Client) (now : Z) (h1 h2 : TmHeader) (basic verdict : Res) (freezes : bool).

Definition light_check (c : LCase) : bool :=
  match c with
  | LHeader T cl now th basic verdict =>
      res_eqb (tm_header_basic (tbl_vals_hash T) (tbl_header_hash T) (tbl_pk_addr T) th) basic &&
      res_eqb (verify_header (tbl_sig_ok T) tbl_vote_bytes (tbl_vals_hash T) (tbl_header_hash T) (tbl_pk_addr T) cl now th) verdict
  | LMisb T cl now h1 h2 basic verdict freezes =>
      res_eqb (misb_basic (tbl_sig_ok T) tbl_vote_bytes (tbl_vals_hash T) (tbl_header_hash T) (tbl_pk_addr T) h1 h2) basic &&
      res_eqb (verify_misbehaviour (tbl_sig_ok T) tbl_vote_bytes (tbl_vals_hash T) (tbl_pk_addr T) cl now h1 h2) verdict &&
      Bool.eqb (misbehaviour_freezes (tbl_sig_ok T) tbl_vote_bytes (tbl_vals_hash T) (tbl_pk_addr T) cl now h1 h2) freezes
  end.
