(** Proofs about TmVerify/Light.v (C24). *)
From IBC Require Import Lib.Bytes Lib.BytesFacts Lib.Dec Core.Height Core.HeightFacts
  TmVerify.Util TmVerify.World TmVerify.WorldFacts TmVerify.Light.
Local Open Scope Z_scope.

(** order-preserving sub-list: the picked (validator, signature) pairs sit at distinct positions *)
Inductive subseq {A} : list A -> list A -> Prop :=
| sub_nil l : subseq [] l
| sub_take x a b : subseq a b -> subseq (x :: a) (x :: b)
| sub_skip x a b : subseq a b -> subseq a (x :: b).

Lemma wrap64_small z : 0 <= z < two63Z -> wrap64 z = z.
Proof.
  intros H. unfold wrap64, two63Z, two64Z in *. rewrite Z.mod_small by lia.
  destruct (Z.ltb_spec z 9223372036854775808); lia.
Qed.

Lemma int64_of_uint64_small n : Z.of_N n < two63Z -> int64_of_uint64 n = Z.of_N n.
Proof. intros H. unfold int64_of_uint64. destruct (Z.ltb_spec (Z.of_N n) two63Z); lia. Qed.

Lemma h_lte_false a b : h_lte a b = false -> lex_lt b a.
Proof.
  intros H. destruct (h_compare_spec a b) as [[_ L]|[[_ E]|[_ L]]]; auto.
  - assert (h_lte a b = true) by (apply h_lte_iff; auto). congruence.
  - subst. assert (h_lte b b = true) by (apply h_lte_iff; auto). congruence.
Qed.

Lemma safe_add_clip_nonneg a b : 0 <= a -> 0 <= b -> 0 <= safe_add_clip a b.
Proof.
  intros. unfold safe_add_clip, max_int64, min_int64.
  destruct (Z.ltb_spec 9223372036854775807 (a + b)); [lia|].
  destruct (Z.ltb_spec (a + b) (-9223372036854775808)); lia.
Qed.

Lemma total_power_from_nonneg l : forall acc T,
  total_power_from acc l = Some T -> 0 <= acc -> (forall v, In v l -> 0 <= v_power v) -> 0 <= T.
Proof.
  induction l as [|v l IH]; intros acc T H Ha Hp; simpl in H.
  - inversion H; subst; auto.
  - destruct (max_total_power <? safe_add_clip acc (v_power v)); [discriminate|].
    eapply IH; eauto.
    + apply safe_add_clip_nonneg; auto. apply Hp; simpl; auto.
    + intros; apply Hp; simpl; auto.
Qed.

Definition power_sum (l : list (Validator * CommitSig)) : Z := fold_right (fun p acc => v_power (fst p) + acc) 0 l.
Definition power_sum3 (l : list (N * Validator * CommitSig)) : Z :=
  fold_right (fun p acc => v_power (snd (fst p)) + acc) 0 l.

Section Facts.
  Variable sig_ok : bytes -> bytes -> bytes -> bool.
  Variable vote_bytes : VoteMsg -> bytes.
  Variable vals_hash : list Validator -> bytes.
  Variable header_hash : Header -> bytes.
  Variable pk_addr : bytes -> bytes.

  Notation sig_valid := (sig_valid sig_ok vote_bytes pk_addr).
  Notation light_loop := (light_loop sig_ok vote_bytes pk_addr).
  Notation trusting_loop := (trusting_loop sig_ok vote_bytes pk_addr).
  Notation verify_commit_light := (verify_commit_light sig_ok vote_bytes pk_addr).
  Notation verify_commit_light_trusting := (verify_commit_light_trusting sig_ok vote_bytes pk_addr).
  Notation valset_from_proto := (valset_from_proto pk_addr).
  Notation verify_header := (verify_header sig_ok vote_bytes vals_hash header_hash pk_addr).
  Notation light_verify := (light_verify sig_ok vote_bytes vals_hash header_hash pk_addr).
  Notation check_misbehaviour_header := (check_misbehaviour_header sig_ok vote_bytes vals_hash pk_addr).
  Notation verify_misbehaviour := (verify_misbehaviour sig_ok vote_bytes vals_hash pk_addr).
  Notation misbehaviour_freezes := (misbehaviour_freezes sig_ok vote_bytes vals_hash pk_addr).
  Notation check_trusted_header := (check_trusted_header vals_hash pk_addr).

  (** some key with this address verifies this signature over this message *)
  Definition VerifiedFor (addr msg sg : bytes) : Prop := exists pk, pk_addr pk = addr /\ sig_ok pk msg sg = true.
  Definition cache_good (cache : Cache) : Prop :=
    forall sg addr msg, In (sg, addr, msg) cache -> VerifiedFor addr msg sg.

  Lemma cache_good_nil : cache_good [].
  Proof. intros sg addr msg []. Qed.

  Lemma cache_hit_in cache sg addr msg : cache_hit cache sg addr msg = true -> In (sg, addr, msg) cache.
  Proof.
    unfold cache_hit. destruct (find _ cache) as [[[s a] m]|] eqn:F; [|discriminate].
    intros H. apply andb_true_iff in H. destruct H as [H1 H2]. simpl in *.
    apply find_some in F. destruct F as [I E]. simpl in E.
    apply bytes_eqb_eq in H1, H2, E. subst. exact I.
  Qed.

  Lemma sig_valid_verified cache chain c v s :
    cache_good cache -> sig_valid cache chain c v s = true ->
    VerifiedFor (pk_addr (v_pk v)) (vote_bytes (sign_msg chain c s)) (s_sig s).
  Proof.
    intros G H. unfold Light.sig_valid in H. apply orb_true_iff in H. destruct H as [H|H].
    - apply cache_hit_in in H. apply G in H. exact H.
    - exists (v_pk v). split; auto.
  Qed.

  Lemma cache_add_good cache sg addr msg :
    cache_good cache -> VerifiedFor addr msg sg -> cache_good (cache_add cache sg addr msg).
  Proof.
    intros G V s a m I. unfold cache_add in I. simpl in I. destruct I as [E|I].
    - inversion E; subst; auto.
    - apply filter_In in I. destruct I as [I _]. apply G; auto.
  Qed.

  (** a counted pair: same position in validator set and commit, BlockIDFlagCommit, same address, and the
      signature verifies for the validator's address over exactly vote_bytes (sign_msg chain commit sig) *)
  Definition good_pair (chain : bytes) (c : Commit) (p : Validator * CommitSig) : Prop :=
    s_flag (snd p) = flag_commit /\ v_addr (fst p) = s_addr (snd p) /\
    VerifiedFor (pk_addr (v_pk (fst p))) (vote_bytes (sign_msg chain c (snd p))) (s_sig (snd p)).

  Lemma light_loop_sound chain c needed : forall vs ss cache tally cache',
    cache_good cache ->
    light_loop chain c needed cache tally vs ss = (true, cache') ->
    exists picked, subseq picked (combine vs ss) /\ Forall (good_pair chain c) picked /\
                   needed < tally + power_sum picked /\ cache_good cache'.
  Proof.
    induction vs as [|v vs IH]; intros ss cache tally cache' G H.
    - simpl in H. inversion H; subst. exists []. repeat split; auto; [constructor|].
      apply negb_true_iff in H1. apply Z.leb_gt in H1. simpl. lia.
    - destruct ss as [|s ss].
      + simpl in H. inversion H; subst. exists []. repeat split; auto; [constructor|].
        apply negb_true_iff in H1. apply Z.leb_gt in H1. simpl. lia.
      + simpl in H.
        destruct (s_flag s =? flag_commit)%N eqn:Fl; simpl in H.
        2:{ destruct (IH _ _ _ _ G H) as (p & S & F & L & G'). exists p. repeat split; auto. constructor; auto. }
        destruct (bytes_eqb (v_addr v) (s_addr s)) eqn:Ad; simpl in H; [|inversion H].
        destruct (sig_valid cache chain c v s) eqn:SV; simpl in H; [|inversion H].
        assert (V := sig_valid_verified _ _ _ _ _ G SV).
        assert (G2 := cache_add_good cache _ _ _ G V).
        assert (GP : good_pair chain c (v, s)).
        { split; [apply N.eqb_eq; auto|]. split; [apply bytes_eqb_eq; auto|exact V]. }
        destruct (needed <? tally + v_power v) eqn:Lt.
        * inversion H; subst. exists [(v, s)]. repeat split; auto.
          -- constructor. constructor.
          -- apply Z.ltb_lt in Lt. simpl. lia.
        * destruct (IH _ _ _ _ G2 H) as (p & S & F & L & G').
          exists ((v, s) :: p). repeat split; auto.
          -- constructor; auto.
          -- simpl. lia.
  Qed.

  (** VerifyCommitLight: Ok means validators holding more than 2/3 of the set's total power are counted *)
  Theorem verify_commit_light_sound chain vals bid height c cache cache' :
    cache_good cache -> (forall v, In v vals -> 0 <= v_power v) ->
    verify_commit_light chain vals bid height c cache = (true, cache') ->
    exists total picked,
      total_power vals = Some total /\
      height = cm_height c /\ blockid_eqb bid (cm_bid c) = true /\
      subseq picked (combine vals (cm_sigs c)) /\ Forall (good_pair chain c) picked /\
      2 * total < 3 * power_sum picked /\ cache_good cache'.
  Proof.
    intros G P H. unfold Light.verify_commit_light in H.
    destruct (N.of_nat (length vals) =? N.of_nat (length (cm_sigs c)))%N; simpl in H; [|inversion H].
    destruct (height =? cm_height c) eqn:Hh; simpl in H; [|inversion H].
    destruct (blockid_eqb bid (cm_bid c)) eqn:Hb; simpl in H; [|inversion H].
    destruct (total_power vals) as [total|] eqn:TP; [|inversion H].
    destruct (light_loop_sound _ _ _ _ _ _ _ _ G H) as (p & S & F & L & G').
    exists total, p. repeat split; auto.
    - apply Z.eqb_eq; auto.
    - assert (0 <= total) by (eapply total_power_from_nonneg; eauto; lia).
      rewrite Z.quot_div_nonneg in L by lia.
      assert (total * 2 < 3 * (total * 2 / 3) + 3).
      { pose proof (Z.div_mod (total * 2) 3 ltac:(lia)). pose proof (Z.mod_pos_bound (total * 2) 3 ltac:(lia)). lia. }
      lia.
  Qed.

  Definition good_tr (chain : bytes) (c : Commit) (vals : list Validator) (p : N * Validator * CommitSig) : Prop :=
    s_flag (snd p) = flag_commit /\ find_val (s_addr (snd p)) 0%N vals = Some (fst p) /\
    VerifiedFor (pk_addr (v_pk (snd (fst p)))) (vote_bytes (sign_msg chain c (snd p))) (s_sig (snd p)).

  Lemma existsb_eqb_in i seen : existsb (N.eqb i) seen = false -> ~ In i seen.
  Proof.
    intros H I. assert (existsb (N.eqb i) seen = true).
    { apply existsb_exists. exists i. split; auto. apply N.eqb_refl. }
    congruence.
  Qed.

  Lemma trusting_loop_sound chain c needed vals : forall ss cache seen tally cache',
    cache_good cache ->
    trusting_loop chain c needed vals cache seen tally ss = (true, cache') ->
    exists picked, Forall (good_tr chain c vals) picked /\
                   NoDup (map (fun p => fst (fst p)) picked) /\
                   (forall p, In p picked -> ~ In (fst (fst p)) seen) /\
                   subseq (map snd picked) ss /\
                   needed < tally + power_sum3 picked /\ cache_good cache'.
  Proof.
    induction ss as [|s ss IH]; intros cache seen tally cache' G H; simpl in H.
    - inversion H; subst. exists []. repeat split; auto; try constructor.
      apply negb_true_iff in H1. apply Z.leb_gt in H1. simpl. lia.
    - destruct (s_flag s =? flag_commit)%N eqn:Fl; simpl in H.
      2:{ destruct (IH _ _ _ _ G H) as (p & F & ND & NS & S & L & G'). exists p. repeat split; auto. constructor; auto. }
      destruct (find_val (s_addr s) 0%N vals) as [[i v]|] eqn:FV.
      2:{ destruct (IH _ _ _ _ G H) as (p & F & ND & NS & S & L & G'). exists p. repeat split; auto. constructor; auto. }
      destruct (existsb (N.eqb i) seen) eqn:Seen; simpl in H; [inversion H|].
      destruct (sig_valid cache chain c v s) eqn:SV; simpl in H; [|inversion H].
      assert (V := sig_valid_verified _ _ _ _ _ G SV).
      assert (G2 := cache_add_good cache _ _ _ G V).
      assert (GP : good_tr chain c vals (i, v, s)).
      { split; [apply N.eqb_eq; auto|]. split; [exact FV|exact V]. }
      destruct (needed <? tally + v_power v) eqn:Lt.
      + inversion H; subst. exists [(i, v, s)]. repeat split; auto.
        * simpl. constructor; [intros []|constructor].
        * intros p [<-|[]]. simpl. apply existsb_eqb_in; auto.
        * simpl. constructor. constructor.
        * apply Z.ltb_lt in Lt. simpl. lia.
      + destruct (IH _ _ _ _ G2 H) as (p & F & ND & NS & S & L & G').
        exists ((i, v, s) :: p). repeat split; auto.
        * simpl. constructor; auto. intros I. apply in_map_iff in I. destruct I as [q [E Iq]].
          apply NS in Iq. rewrite E in Iq. apply Iq. simpl; auto.
        * intros q [<-|Iq]; simpl.
          -- apply existsb_eqb_in; auto.
          -- intros I. apply (NS q Iq). simpl; auto.
        * simpl. constructor; auto.
        * simpl. lia.
  Qed.

  (** VerifyCommitLightTrusting: Ok means distinct validators of the trusted set, each with a verifying
      BlockIDFlagCommit signature in the commit, hold more than the needed power as the code computes it *)
  Theorem verify_commit_light_trusting_sound chain vals c num den cache cache' :
    cache_good cache ->
    verify_commit_light_trusting chain vals c num den cache = (true, cache') ->
    exists total needed picked,
      total_power vals = Some total /\ trust_needed total num den = Some needed /\
      Forall (good_tr chain c vals) picked /\ NoDup (map (fun p => fst (fst p)) picked) /\
      subseq (map snd picked) (cm_sigs c) /\ needed < power_sum3 picked /\ cache_good cache'.
  Proof.
    intros G H. unfold Light.verify_commit_light_trusting in H.
    destruct (total_power vals) as [total|] eqn:TP; [|inversion H].
    destruct (trust_needed total num den) as [needed|] eqn:TN; [|inversion H].
    destruct (trusting_loop_sound _ _ _ _ _ _ _ _ _ G H) as (p & F & ND & _ & S & L & G').
    exists total, needed, p. repeat split; auto.
  Qed.

  (** for trust levels whose numerator and denominator fit int64 the needed power is the trust level:
      more than floor(total*num/den), hence at least total*num/den *)
  Theorem trust_needed_guarded total num den needed S :
    trust_needed total num den = Some needed -> 0 <= total ->
    Z.of_N num < two63Z -> Z.of_N den < two63Z -> needed < S ->
    total * Z.of_N num < S * Z.of_N den.
  Proof.
    intros H T Hn Hd L. unfold trust_needed in H.
    destruct (N.eqb_spec den 0) as [->|ND]; [discriminate|].
    rewrite (int64_of_uint64_small num Hn), (int64_of_uint64_small den Hd) in H.
    assert (Dp : 0 < Z.of_N den) by lia.
    unfold safe_mul in H.
    destruct ((total =? 0) || (Z.of_N num =? 0)) eqn:Z0.
    - inversion H; subst. rewrite Z.quot_0_l in L by lia.
      apply orb_true_iff in Z0. destruct Z0 as [E|E]; apply Z.eqb_eq in E; rewrite E; nia.
    - apply orb_false_iff in Z0. destruct Z0 as [E1 E2]. apply Z.eqb_neq in E1, E2.
      destruct (Z.ltb_spec (Z.of_N num) 0); [lia|]. destruct (Z.ltb_spec total 0); [lia|].
      destruct (Z.gtb_spec total (Z.quot max_int64 (Z.of_N num))); [discriminate|].
      inversion H; subst; clear H.
      assert (Np : 0 < Z.of_N num) by lia.
      rewrite Z.quot_div_nonneg in H2 by (unfold max_int64; lia).
      assert (B : total * Z.of_N num <= max_int64).
      { assert (Z.of_N num * total <= Z.of_N num * (max_int64 / Z.of_N num)) by (apply Z.mul_le_mono_nonneg_l; lia).
        pose proof (Z.mul_div_le max_int64 (Z.of_N num) Np). lia. }
      rewrite wrap64_small in L by (unfold two63Z, max_int64 in *; nia).
      rewrite Z.quot_div_nonneg in L by nia.
      assert (total * Z.of_N num < Z.of_N den * (total * Z.of_N num / Z.of_N den) + Z.of_N den).
      { pose proof (Z.div_mod (total * Z.of_N num) (Z.of_N den) ltac:(lia)).
        pose proof (Z.mod_pos_bound (total * Z.of_N num) (Z.of_N den) Dp). lia. }
      nia.
  Qed.

  Lemma valset_powers_nonneg o vals : valset_from_proto o = Some vals -> forall v, In v vals -> 0 <= v_power v.
  Proof.
    unfold Light.valset_from_proto. destruct o as [s|]; [|discriminate].
    destruct (vs_prop s); [|discriminate]. destruct (total_power (vs_vals s)); [|discriminate].
    destruct (vs_vals s) eqn:E; [discriminate|]. rewrite <- E.
    destruct (forallb (validator_ok pk_addr) (vs_vals s)) eqn:F; simpl; [|discriminate].
    destruct (negb (validator_ok pk_addr v)); [discriminate|].
    destruct (negb (existsb _ _)); [discriminate|].
    intros H; inversion H; subst. intros x I. rewrite forallb_forall in F. apply F in I.
    unfold validator_ok in I. apply andb_true_iff in I. destruct I as [I _].
    apply negb_true_iff in I. apply Z.ltb_ge in I. exact I.
  Qed.

  (** ---- verifyHeader: what an accepted header satisfies -------------------------------------------- *)
  Definition adjacent (th : TmHeader) : Prop :=
    hd_height (th_hdr th) = wrap64 (int64_of_uint64 (ht (th_trusted th)) + 1).

  Theorem verify_header_accept cl now th :
    verify_header cl now th = Ok ->
    exists cs tvals vals hh,
      hlookup (th_trusted th) (c_cons cl) = Some cs /\
      valset_from_proto (th_tvals th) = Some tvals /\ vals_hash tvals = cs_nvh cs /\
      valset_from_proto (th_vals th) = Some vals /\
      header_height (th_hdr th) = Some hh /\ rev hh = rev (th_trusted th) /\ lex_lt (th_trusted th) hh /\
      now < cs_ts cs + c_trusting cl /\
      cs_ts cs < hd_time (th_hdr th) /\ hd_time (th_hdr th) < now + c_drift cl /\
      hd_chain (th_hdr th) = c_chain cl /\
      int64_of_uint64 (ht (th_trusted th)) < hd_height (th_hdr th) /\
      hd_vals (th_hdr th) = vals_hash vals /\
      header_hash (th_hdr th) = bi_hash (cm_bid (th_commit th)) /\
      cm_height (th_commit th) = hd_height (th_hdr th) /\
      (exists total picked,
         total_power vals = Some total /\
         subseq picked (combine vals (cm_sigs (th_commit th))) /\
         Forall (good_pair (c_chain cl) (th_commit th)) picked /\
         2 * total < 3 * power_sum picked) /\
      (adjacent th -> hd_vals (th_hdr th) = cs_nvh cs) /\
      (~ adjacent th ->
         exists total needed picked,
           total_power tvals = Some total /\ trust_needed total (c_tl_num cl) (c_tl_den cl) = Some needed /\
           Forall (good_tr (c_chain cl) (th_commit th) tvals) picked /\
           NoDup (map (fun p => fst (fst p)) picked) /\
           subseq (map snd picked) (cm_sigs (th_commit th)) /\ needed < power_sum3 picked).
  Proof.
    unfold Light.verify_header. intros H.
    destruct (hlookup (th_trusted th) (c_cons cl)) as [cs|] eqn:HL; [|discriminate].
    destruct (check_trusted_header (th_tvals th) cs) eqn:CT; simpl in H; [|discriminate].
    destruct (header_height (th_hdr th)) as [hh|] eqn:HH; [|discriminate].
    destruct (rev hh =? rev (th_trusted th))%N eqn:RV; simpl in H; [|discriminate].
    destruct (valset_from_proto (th_tvals th)) as [tvals|] eqn:TV; [|discriminate].
    destruct (signed_header_from_proto_ok (th_hdr th) (th_commit th)) eqn:SP; simpl in H; [|discriminate].
    destruct (valset_from_proto (th_vals th)) as [vals|] eqn:UV; [|discriminate].
    destruct (h_lte hh (th_trusted th)) eqn:LE; [discriminate|].
    destruct (light_verify _ _ _ _ _ _ _ _ _ _ _ _ _) eqn:LV; [|discriminate].
    unfold Light.check_trusted_header in CT. rewrite TV in CT. apply bytes_eqb_eq in CT.
    assert (Pv := valset_powers_nonneg _ _ UV).
    exists cs, tvals, vals, hh.
    unfold Light.light_verify in LV.
    (* both branches share the first two checks *)
    assert (Common :
      header_expired (cs_ts cs) (c_trusting cl) now = false /\
      verify_new_header_and_vals vals_hash header_hash (th_hdr th) (th_commit th) vals (c_chain cl)
        (int64_of_uint64 (ht (th_trusted th))) (cs_ts cs) now (c_drift cl) = true).
    { destruct (negb (hd_height (th_hdr th) =? wrap64 (int64_of_uint64 (ht (th_trusted th)) + 1)));
        destruct (header_expired (cs_ts cs) (c_trusting cl) now); try discriminate;
        destruct (verify_new_header_and_vals _ _ _ _ _ _ _ _ _ _); try discriminate; auto. }
    destruct Common as [EX NV]. rewrite EX, NV in LV. simpl in LV.
    unfold header_expired in EX. apply negb_false_iff in EX. apply Z.ltb_lt in EX.
    unfold Light.verify_new_header_and_vals, Light.signed_header_basic_ok in NV.
    repeat (apply andb_true_iff in NV; destruct NV as [NV ?]).
    repeat match goal with
           | H : bytes_eqb _ _ = true |- _ => apply bytes_eqb_eq in H
           | H : (_ =? _) = true |- _ => apply Z.eqb_eq in H
           | H : (_ <? _) = true |- _ => apply Z.ltb_lt in H
           | H : negb (_ <=? _) = true |- _ => apply negb_true_iff in H; apply Z.leb_gt in H
           end.
    apply N.eqb_eq in RV. apply h_lte_false in LE.
    repeat split; auto.
    - (* > 2/3 of the own set *)
      destruct (hd_height (th_hdr th) =? wrap64 (int64_of_uint64 (ht (th_trusted th)) + 1)) eqn:AD; simpl in LV.
      + destruct (bytes_eqb (hd_vals (th_hdr th)) (cs_nvh cs)); simpl in LV; [|discriminate].
        destruct (verify_commit_light _ _ _ _ _ _) as [ok cache'] eqn:VC. simpl in LV. subst ok.
        destruct (verify_commit_light_sound _ _ _ _ _ _ _ cache_good_nil Pv VC) as (total & p & TP & _ & _ & S & F & L & _).
        exists total, p. repeat split; auto.
      + destruct (verify_commit_light_trusting _ _ _ _ _ _) as [ok1 cache] eqn:VT. destruct ok1; simpl in LV; [|discriminate].
        destruct (verify_commit_light_trusting_sound _ _ _ _ _ _ _ cache_good_nil VT) as (t1 & n1 & p1 & _ & _ & _ & _ & _ & _ & G').
        destruct (verify_commit_light _ _ _ _ _ _) as [ok cache'] eqn:VC. simpl in LV. subst ok.
        destruct (verify_commit_light_sound _ _ _ _ _ _ _ G' Pv VC) as (total & p & TP & _ & _ & S & F & L & _).
        exists total, p. repeat split; auto.
    - (* adjacent: validators hash = trusted next validators hash *)
      intros AD. unfold adjacent in AD. apply Z.eqb_eq in AD. rewrite AD in LV. simpl in LV.
      destruct (bytes_eqb (hd_vals (th_hdr th)) (cs_nvh cs)) eqn:E; simpl in LV; [|discriminate].
      apply bytes_eqb_eq in E. congruence.
    - (* non-adjacent: trust level of the trusted set *)
      intros NAD. unfold adjacent in NAD. apply Z.eqb_neq in NAD. rewrite NAD in LV. simpl in LV.
      destruct (verify_commit_light_trusting _ _ _ _ _ _) as [ok1 cache] eqn:VT. destruct ok1; simpl in LV; [|discriminate].
      destruct (verify_commit_light_trusting_sound _ _ _ _ _ _ _ cache_good_nil VT) as (total & needed & p & TP & TN & F & ND & S & L & _).
      exists total, needed, p. repeat split; auto.
  Qed.


  (** with a client state that passed ClientState.Validate the needed power is the trust level: an accepted
      non-adjacent header carries verifying signatures of distinct trusted validators whose power S satisfies
      S * den > total * num, i.e. at least the trust level of the trusted set *)
  Theorem verify_header_trust_level cl now th :
    verify_header cl now th = Ok -> tl_fits cl -> ~ adjacent th ->
    exists tvals total picked,
      valset_from_proto (th_tvals th) = Some tvals /\ total_power tvals = Some total /\
      Forall (good_tr (c_chain cl) (th_commit th) tvals) picked /\
      NoDup (map (fun p => fst (fst p)) picked) /\
      subseq (map snd picked) (cm_sigs (th_commit th)) /\
      total * Z.of_N (c_tl_num cl) < power_sum3 picked * Z.of_N (c_tl_den cl).
  Proof.
    intros A [Fn Fd] NA.
    destruct (verify_header_accept _ _ _ A) as (cs & tvals & vals & hh & _ & TV & _ & _ & _ & _ & _ & _ & _ & _ & _ & _ & _ & _ & _ & _ & _ & NAD).
    destruct (NAD NA) as (total & needed & p & TP & TN & F & ND & S & L).
    exists tvals, total, p. repeat split; auto.
    eapply trust_needed_guarded; eauto.
    eapply total_power_from_nonneg; [exact TP|lia|]. eapply valset_powers_nonneg; eauto.
  Qed.

  (** ---- misbehaviour ----------------------------------------------------------------------------------- *)
  Theorem check_misbehaviour_header_accept cl cs th now :
    check_misbehaviour_header cl cs th now = Ok ->
    exists tvals chain total needed picked,
      valset_from_proto (th_tvals th) = Some tvals /\ vals_hash tvals = cs_nvh cs /\
      now - cs_ts cs < c_trusting cl /\
      total_power tvals = Some total /\ trust_needed total (c_tl_num cl) (c_tl_den cl) = Some needed /\
      Forall (good_tr chain (th_commit th) tvals) picked /\ NoDup (map (fun p => fst (fst p)) picked) /\
      subseq (map snd picked) (cm_sigs (th_commit th)) /\ needed < power_sum3 picked.
  Proof.
    unfold Light.check_misbehaviour_header. intros H.
    destruct (valset_from_proto (th_tvals th)) as [tvals|] eqn:TV; [|discriminate].
    destruct (commit_basic_ok (th_commit th)); simpl in H; [|discriminate].
    destruct (check_trusted_header (th_tvals th) cs) eqn:CT; simpl in H; [|discriminate].
    destruct (c_trusting cl <=? now - cs_ts cs) eqn:TP; [discriminate|].
    unfold Light.check_trusted_header in CT. rewrite TV in CT. apply bytes_eqb_eq in CT.
    apply Z.leb_gt in TP.
    match type of H with match ?ch with _ => _ end = _ => destruct ch as [chain|] eqn:CH end; [|discriminate].
    destruct (verify_commit_light_trusting _ _ _ _ _ _) as [ok cache] eqn:VT. simpl in H. destruct ok; [|discriminate].
    destruct (verify_commit_light_trusting_sound _ _ _ _ _ _ _ cache_good_nil VT) as (total & needed & p & TPw & TN & F & ND & S & L & _).
    exists tvals, chain, total, needed, p. repeat split; auto.
  Qed.

  (** a misbehaviour submission freezes the client only if both headers pass checkMisbehaviourHeader against
      consensus states stored at their trusted heights *)
  Theorem misbehaviour_freezes_only_if_both_pass cl now h1 h2 :
    misbehaviour_freezes cl now h1 h2 = true ->
    exists cs1 cs2,
      hlookup (th_trusted h1) (c_cons cl) = Some cs1 /\ hlookup (th_trusted h2) (c_cons cl) = Some cs2 /\
      check_misbehaviour_header cl cs1 h1 now = Ok /\ check_misbehaviour_header cl cs2 h2 now = Ok.
  Proof.
    unfold Light.misbehaviour_freezes, Light.misb_msg. intros H.
    destruct (header_height (th_hdr h1)); [|discriminate]. destruct (header_height (th_hdr h2)); [|discriminate].
    simpl in H. apply andb_true_iff in H. destruct H as [H _].
    unfold Light.verify_misbehaviour in H.
    destruct (hlookup (th_trusted h1) (c_cons cl)) as [cs1|]; [|discriminate].
    destruct (hlookup (th_trusted h2) (c_cons cl)) as [cs2|]; [|discriminate].
    exists cs1, cs2. destruct (check_misbehaviour_header cl cs1 h1 now); try discriminate.
    destruct (check_misbehaviour_header cl cs2 h2 now); try discriminate. auto.
  Qed.

  (** ---- sign bytes ----------------------------------------------------------------------------------------- *)
  (** the vote a signature is checked against determines chain id, height, round, block id and timestamp *)
  Lemma sign_msg_inj ch c s ch' c' s' :
    sign_msg ch c s = sign_msg ch' c' s' ->
    ch = ch' /\ cm_height c = cm_height c' /\ cm_round c = cm_round c' /\ cm_bid c = cm_bid c' /\ s_ts s = s_ts s'.
  Proof. unfold sign_msg. intros H. inversion H. auto. Qed.

  (** two accepted headers that differ in any field are either signed over different votes — every signature
      check of one gets different sign bytes input than every check of the other — or exhibit a collision of the
      header hash *)
  Theorem changed_header_changes_sign_bytes cl now th cl' now' th' :
    verify_header cl now th = Ok -> verify_header cl' now' th' = Ok -> th_hdr th <> th_hdr th' ->
    (th_hdr th <> th_hdr th' /\ header_hash (th_hdr th) = header_hash (th_hdr th')) \/
    (forall s s', sign_msg (c_chain cl) (th_commit th) s <> sign_msg (c_chain cl') (th_commit th') s').
  Proof.
    intros A B NE.
    destruct (verify_header_accept _ _ _ A) as (? & ? & ? & ? & _ & _ & _ & _ & _ & _ & _ & _ & _ & _ & _ & _ & _ & HA & _).
    destruct (verify_header_accept _ _ _ B) as (? & ? & ? & ? & _ & _ & _ & _ & _ & _ & _ & _ & _ & _ & _ & _ & _ & HB & _).
    destruct (bytes_eq_dec (bi_hash (cm_bid (th_commit th))) (bi_hash (cm_bid (th_commit th')))) as [E|D].
    - left. split; auto. congruence.
    - right. intros s s' Eq. apply sign_msg_inj in Eq. destruct Eq as (_ & _ & _ & Eb & _). apply D. rewrite Eb. reflexivity.
  Qed.

  (** and different votes have different sign bytes unless the vote encoding collides *)
  Lemma vote_bytes_distinct m m' :
    m <> m' -> vote_bytes m = vote_bytes m' -> exists a b, a <> b /\ vote_bytes a = vote_bytes b.
  Proof. intros NE E. exists m, m'. auto. Qed.
End Facts.

(** ---- the trust-level statement is false of the verifier alone (without ClientState.Validate's int64 check, fix 73282cb): witness ---------------------------------- *)
Definition wrap_val : Validator := mkVal (B "aaaaaaaaaaaaaaaaaaaa") (B "key") 1.
Definition wrap_commit : Commit :=
  mkCommit 9 0 (mkBID (B "h") 1 (B "p")) [mkSig flag_commit (B "bbbbbbbbbbbbbbbbbbbb") 0 (B "sig")].

(** trust level 2^62 / (3*2^62) (= 1/3, accepted by light.ValidateTrustLevel and ClientState.Validate), a trusted
    set of total power 1, no signature of the trusted set, not even a valid signature at all: accepted *)
Lemma trust_level_without_validate_refuted :
  exists (sig_ok : bytes -> bytes -> bytes -> bool) vals c num den,
    valid_trust_level num den = true /\ trust_level_fits num den = false /\
    (forall pk m s, sig_ok pk m s = false) /\
    fst (verify_commit_light_trusting sig_ok (fun _ => []) (fun _ => []) (B "chain-1") vals c num den []) = true.
Proof.
  exists (fun _ _ _ => false), [wrap_val], wrap_commit, 4611686018427387904%N, 13835058055282163712%N.
  split; [vm_compute; reflexivity|]. split; [vm_compute; reflexivity|]. split; [reflexivity|vm_compute; reflexivity].
Qed.
