(** Store writes of client recovery and upgrade, by namespace.
    07-tendermint/proposal_handle.go:CheckSubstituteAndUpdateState receives two client stores (subject, substitute);
    the sequence of Set calls it issues, in code order, with the store each goes to:
      setConsensusState(subject, h)                      h = substitute's latest height
      setConsensusMetadataWithValues(subject, h, ..)     = SetProcessedTime, SetProcessedHeight, SetIterationKey
      setClientState(subject)
    and nothing is written before IsMatchingClientState / the substitute consensus-state lookup succeed; the
    consensus state is already written when a missing processed height / time makes it fail (the transaction
    then reverts).  07-tendermint/upgrade.go:VerifyUpgradeAndUpdateState writes, only on success,
      setClientState, setConsensusState(h'), setConsensusMetadata(h')   in its single client store. *)
From IBC Require Import Lib.Bytes Lib.BytesFacts Lib.Dec Core.Height TmVerify.Util TmVerify.World.
Local Open Scope N_scope.

(** keys of a client store (24-host + 07-tendermint/store.go), structurally *)
Inductive WKey :=
| KClientState                      (* clientState *)
| KCons (h : Height)                (* consensusStates/<h> *)
| KPTime (h : Height)               (* consensusStates/<h>/processedTime *)
| KPHeight (h : Height)             (* consensusStates/<h>/processedHeight *)
| KIter (h : Height)                (* iterateConsensusStates<BE rev><BE height> *)
| KOther (b : bytes).
Inductive NS := NSubject | NSubstitute.
Inductive WOp := WSet | WDel.
Definition Write := (NS * WOp * WKey)%type.

Definition wkey_eqb (a b : WKey) : bool :=
  match a, b with
  | KClientState, KClientState => true
  | KCons x, KCons y | KPTime x, KPTime y | KPHeight x, KPHeight y | KIter x, KIter y => height_eqb x y
  | KOther x, KOther y => bytes_eqb x y
  | _, _ => false
  end.
Definition write_eqb (a b : Write) : bool :=
  match a, b with
  | (n1, o1, k1), (n2, o2, k2) =>
      match n1, n2 with NSubject, NSubject | NSubstitute, NSubstitute => true | _, _ => false end &&
      match o1, o2 with WSet, WSet | WDel, WDel => true | _, _ => false end && wkey_eqb k1 k2
  end.

(** CheckSubstituteAndUpdateState: result and the writes issued *)
Definition check_substitute_writes (c s : Client) : Res * list Write :=
  if negb (is_matching c s) then (Err, [])
  else
    let h := c_latest s in
    match hlookup h (c_cons s) with
    | None => (Err, [])
    | Some e =>
        let w1 := [(NSubject, WSet, KCons h)] in
        match cs_pheight e with
        | None => (Err, w1)
        | Some _ =>
            match cs_ptime e with
            | None => (Err, w1)
            | Some _ =>
                (Ok, w1 ++ [(NSubject, WSet, KPTime h); (NSubject, WSet, KPHeight h); (NSubject, WSet, KIter h);
                            (NSubject, WSet, KClientState)])
            end
        end
    end.

(** VerifyUpgradeAndUpdateState: the writes of a successful upgrade to latest height h (none on failure) *)
Definition upgrade_writes (h : Height) : list Write :=
  [(NSubject, WSet, KClientState); (NSubject, WSet, KCons h); (NSubject, WSet, KPTime h);
   (NSubject, WSet, KPHeight h); (NSubject, WSet, KIter h)].

Definition in_subject (w : Write) : Prop := fst (fst w) = NSubject.

(** recovery never writes (or deletes) in the substitute's namespace *)
Lemma check_substitute_writes_subject_only c s : Forall in_subject (snd (check_substitute_writes c s)).
Proof.
  unfold check_substitute_writes.
  destruct (negb (is_matching c s)); simpl; [constructor|].
  destruct (hlookup (c_latest s) (c_cons s)) as [e|]; simpl; [|constructor].
  destruct (cs_pheight e); simpl; [|repeat constructor].
  destruct (cs_ptime e); simpl; repeat constructor.
Qed.

(** a successful recovery writes exactly: the consensus state at the substitute's latest height, its processed
    time, processed height and iteration key, and the client state — all under the subject *)
Lemma check_substitute_writes_ok c s ws :
  check_substitute_writes c s = (Ok, ws) ->
  let h := c_latest s in
  is_matching c s = true /\ (exists e, hlookup h (c_cons s) = Some e) /\
  ws = [(NSubject, WSet, KCons h); (NSubject, WSet, KPTime h); (NSubject, WSet, KPHeight h);
        (NSubject, WSet, KIter h); (NSubject, WSet, KClientState)].
Proof.
  unfold check_substitute_writes. intros H.
  destruct (is_matching c s) eqn:M; simpl in H; [|inversion H].
  destruct (hlookup (c_latest s) (c_cons s)) as [e|] eqn:L; [|inversion H].
  destruct (cs_pheight e); [|inversion H]. destruct (cs_ptime e); inversion H; subst.
  simpl. repeat split; eauto.
Qed.

(** the write model agrees with the state model of World.v: whenever the keeper-level recovery succeeds, the
    light-client call it makes is the successful one *)
Lemma recover_ok_writes w a b w' :
  recover_client w a b = (w', Ok) ->
  exists c s, get_client w a = Some (Tm c) /\ get_client w b = Some (Tm s) /\
              fst (check_substitute_writes c s) = Ok.
Proof.
  unfold recover_client. intros S.
  destruct (get_client w a) as [[c|ty]|] eqn:Ea; try (inversion S; fail).
  2:{ simpl in S. destruct (get_client w b) as [[s|ty]|]; try (inversion S; fail).
      destruct (negb (status_eqb (status (w_now w) s) Active)); try (inversion S; fail).
      destruct (h_gte (latest_of w a) (c_latest s)); inversion S. }
  destruct (status_eqb (status (w_now w) c) Active); try (inversion S; fail).
  destruct (get_client w b) as [[s|ty]|] eqn:Eb; try (inversion S; fail).
  destruct (negb (status_eqb (status (w_now w) s) Active)); try (inversion S; fail).
  destruct (h_gte (latest_of w a) (c_latest s)); try (inversion S; fail).
  destruct (is_matching c s) eqn:IM; simpl in S; try (inversion S; fail).
  destruct (hlookup (c_latest s) (c_cons s)) as [e|] eqn:HL; try (inversion S; fail).
  destruct (cs_pheight e) eqn:PH; try (inversion S; fail).
  destruct (cs_ptime e) eqn:PT; try (inversion S; fail).
  exists c, s. repeat split; auto.
  unfold check_substitute_writes. rewrite IM, HL, PH, PT. reflexivity.
Qed.
