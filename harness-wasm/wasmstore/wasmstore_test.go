// Package wasmstore is the `wasmstore` scenario family (property C29): histories of
// get/has/set/delete/iterator/reverse-iterator on the 08-wasm ClientRecoveryStore, built over two
// prefix stores of one parent store, with both underlying stores (and the rest of the parent) dumped
// after every operation.
package wasmstore

import (
	"testing"

	dbm "github.com/cosmos/cosmos-db"

	"github.com/cosmos/cosmos-sdk/store/v2/cachekv"
	"github.com/cosmos/cosmos-sdk/store/v2/dbadapter"
	"github.com/cosmos/cosmos-sdk/store/v2/gaskv"
	"github.com/cosmos/cosmos-sdk/store/v2/prefix"
	storetypes "github.com/cosmos/cosmos-sdk/store/v2/types"

	"github.com/cosmos/ibc-go/modules/light-clients/08-wasm/v11/verifhook"

	"verif/harness-wasm/hx"
)

var (
	subjectClientPrefix    = []byte("clients/08-wasm-0/")
	substituteClientPrefix = []byte("clients/08-wasm-1/")
)

// hp renders a possibly-nil byte slice: nil -> JSON null, otherwise hex.
func hp(b []byte) any {
	if b == nil {
		return nil
	}
	return hx.H(b)
}

func dump(s storetypes.KVStore, start, end []byte) [][2]string {
	out := [][2]string{}
	it := s.Iterator(start, end)
	defer it.Close()
	for ; it.Valid(); it.Next() {
		out = append(out, [2]string{hx.H(it.Key()), hx.H(it.Value())})
	}
	return out
}

// rest dumps everything of the parent store that belongs to neither client store.
func rest(parent storetypes.KVStore) [][2]string {
	out := [][2]string{}
	it := parent.Iterator(nil, nil)
	defer it.Close()
	for ; it.Valid(); it.Next() {
		k := it.Key()
		if hasPrefix(k, subjectClientPrefix) || hasPrefix(k, substituteClientPrefix) {
			continue
		}
		out = append(out, [2]string{hx.H(k), hx.H(it.Value())})
	}
	return out
}

func hasPrefix(k, p []byte) bool { return len(k) >= len(p) && string(k[:len(p)]) == string(p) }

var inner = []string{"a", "b", "ab", "b/", "\x00", "\x00a", "\x00\x03abc", "\x00\xff", "\x01", "\xff", "clientState",
	"consensusStates/1-5", "subject/", "substitute/", "z"}

// genKey draws a key of one of the classes the property names; returns the key and its class.
func genKey(r *hx.Rng) ([]byte, string) {
	in := []byte(r.Pick(inner))
	if r.Chance(1, 6) {
		in = r.Bytes(1 + r.Intn(3))
	}
	switch r.Intn(16) {
	case 0, 1, 2, 3, 4:
		return append([]byte("subject/"), in...), "subject"
	case 5, 6, 7:
		return append([]byte("substitute/"), in...), "substitute"
	case 8:
		return in, "unprefixed"
	case 9:
		return append([]byte("subject/substitute/"), in...), "both-subject-first"
	case 10:
		return append([]byte("substitute/subject/"), in...), "both-substitute-first"
	case 11:
		if r.Bool() {
			return nil, "nil"
		}
		return []byte{}, "empty"
	case 12:
		if r.Bool() {
			return []byte("subject/"), "prefix-only"
		}
		return []byte("substitute/"), "prefix-only"
	case 13:
		// near misses of the prefixes
		return append([]byte(r.Pick([]string{"subject", "Subject/", "subject0", "substitute", "substitute0", "ubject/", "subjec/t", "clients/08-wasm-0/", "clients/08-wasm-1/"})), in...), "near-miss"
	case 14:
		return append([]byte("subject/"), []byte(r.Pick([]string{"\x00", "\x00\x00", "\x01", "\xff\xff", "~"}))...), "subject-bound"
	default:
		return append([]byte("substitute/"), []byte(r.Pick([]string{"\x00", "\x01", "\xff\xff", "~"}))...), "substitute-bound"
	}
}

func genVal(r *hx.Rng) []byte {
	switch r.Intn(10) {
	case 0:
		return nil
	case 1:
		return []byte{}
	default:
		return r.Bytes(1 + r.Intn(4))
	}
}

type opRec struct {
	Op string `json:"op"`
	K  any    `json:"k,omitempty"`
	V  any    `json:"v,omitempty"`
	S  any    `json:"s,omitempty"`
	E  any    `json:"e,omitempty"`
	// classes of the keys, for the monitors and the measured distribution
	C  string `json:"c,omitempty"`
	C2 string `json:"c2,omitempty"`
}

type obs struct {
	R     string      `json:"r"` // get|has|ok|iter|panic
	V     any         `json:"v,omitempty"`
	Nil   bool        `json:"nil,omitempty"`
	B     bool        `json:"b,omitempty"`
	KV    [][2]any    `json:"kv,omitempty"`
	Subj  [][2]string `json:"subj"`
	Subst [][2]string `json:"subst"`
	Rest  [][2]string `json:"rest"`
}

func readIter(it storetypes.Iterator) [][2]any {
	out := [][2]any{}
	n := 0
	for ; it.Valid(); it.Next() {
		out = append(out, [2]any{hp(it.Key()), hp(it.Value())})
		n++
		if n > 10000 {
			panic("runaway iterator")
		}
	}
	return out
}

// parentKinds: the store the two client prefix stores sit on.
//
//	mem               dbadapter over MemDB (what the repo's unit tests use)
//	cachekv           cachekv over an empty DB: every entry is dirty in the cache
//	cachekv-committed initial entries committed to the DB, then wrapped in cachekv (entries only below the cache)
//	gaskv             gaskv over cachekv over a DB holding half of the initial entries (the stack ctx.KVStore has in a tx)
var parentKinds = []string{"mem", "cachekv", "cachekv-committed", "gaskv"}

type scripted struct {
	subj [][2][]byte
	ops  []func(store storetypes.KVStore) (opRec, obs)
}

func history(r *hx.Rng, o *hx.Out, kindName string, nops int, corpus *scripted) {
	var parent storetypes.KVStore
	base := dbadapter.Store{DB: dbm.NewMemDB()}
	var wrap func() storetypes.KVStore
	switch kindName {
	case "mem":
		parent = base
	case "cachekv":
		parent = cachekv.NewStore(base)
	case "cachekv-committed":
		parent = base
		wrap = func() storetypes.KVStore { return cachekv.NewStore(base) }
	default: // gaskv
		parent = base
		wrap = func() storetypes.KVStore {
			return gaskv.NewStore(cachekv.NewStore(base), storetypes.NewInfiniteGasMeter(), storetypes.KVGasConfig())
		}
	}
	subject := prefix.NewStore(parent, subjectClientPrefix)
	substitute := prefix.NewStore(parent, substituteClientPrefix)
	// initial contents (written through the same parent)
	if corpus != nil {
		for _, kv := range corpus.subj {
			subject.Set(kv[0], kv[1])
		}
	} else {
		for i, n := 0, r.Intn(6); i < n; i++ {
			k := []byte(r.Pick(inner))
			subject.Set(k, r.Bytes(1+r.Intn(3)))
		}
	}
	for i, n := 0, 1+r.Intn(6); i < n; i++ {
		k := []byte(r.Pick(inner))
		v := r.Bytes(1 + r.Intn(3))
		if r.Chance(1, 8) {
			v = []byte{}
		}
		substitute.Set(k, v)
	}
	parent.Set([]byte("clients/07-tendermint-0/clientState"), []byte("other"))
	parent.Set([]byte("clients/08-wasm-10/clientState"), []byte("other10"))
	parent.Set([]byte("nextClientSequence"), []byte{0, 0, 0, 0, 0, 0, 0, 2})
	if r.Chance(1, 4) {
		// the client-store prefix itself as a parent key: the empty key of a prefix store
		parent.Set(append([]byte(nil), substituteClientPrefix...), []byte("root"))
	}
	if r.Chance(1, 6) {
		parent.Set(append([]byte(nil), subjectClientPrefix...), []byte("sroot"))
	}
	if wrap != nil {
		// re-base both client stores on the wrapped parent; what was written so far is committed below the cache
		parent = wrap()
		subject = prefix.NewStore(parent, subjectClientPrefix)
		substitute = prefix.NewStore(parent, substituteClientPrefix)
		if kindName == "gaskv" && corpus == nil {
			for i, n := 0, r.Intn(4); i < n; i++ {
				subject.Set([]byte(r.Pick(inner)), r.Bytes(1+r.Intn(3)))
			}
			if r.Bool() {
				subject.Delete([]byte(r.Pick(inner)))
			}
		}
	}
	store := verifhook.NewClientRecoveryStore(subject, substitute)

	in := map[string]any{
		"parent": kindName,
		"subj":   dump(subject, nil, nil),
		"subst":  dump(substitute, nil, nil),
		"rest":   rest(parent),
	}
	ops := []opRec{}
	outs := []obs{}
	if corpus != nil {
		nops = 0
		for _, f := range corpus.ops {
			op, ob := f(store)
			ob.Subj = dump(subject, nil, nil)
			ob.Subst = dump(substitute, nil, nil)
			ob.Rest = rest(parent)
			ops = append(ops, op)
			outs = append(outs, ob)
		}
	}
	for i := 0; i < nops; i++ {
		var op opRec
		var ob obs
		switch c := r.Intn(12); {
		case c < 2:
			k, cl := genKey(r)
			op = opRec{Op: "get", K: hp(k), C: cl}
			p, _ := hx.Catch(func() {
				v := store.Get(k)
				ob.R, ob.V, ob.Nil = "get", hp(v), v == nil
			})
			if p {
				ob = obs{R: "panic"}
			}
		case c < 3:
			k, cl := genKey(r)
			op = opRec{Op: "has", K: hp(k), C: cl}
			p, _ := hx.Catch(func() { ob.R, ob.B = "has", store.Has(k) })
			if p {
				ob = obs{R: "panic"}
			}
		case c < 6:
			k, cl := genKey(r)
			v := genVal(r)
			op = opRec{Op: "set", K: hp(k), V: hp(v), C: cl}
			if v == nil {
				op.C2 = "nil-value"
			}
			p, _ := hx.Catch(func() { store.Set(k, v); ob.R = "ok" })
			if p {
				ob = obs{R: "panic"}
			}
		case c < 8:
			k, cl := genKey(r)
			op = opRec{Op: "delete", K: hp(k), C: cl}
			p, _ := hx.Catch(func() { store.Delete(k); ob.R = "ok" })
			if p {
				ob = obs{R: "panic"}
			}
		default:
			s, cs := genKey(r)
			e, ce := genKey(r)
			if r.Chance(1, 2) {
				// a consistent, usually non-empty range
				pf := "subject/"
				if r.Chance(1, 3) {
					pf = "substitute/"
				}
				s, cs = []byte(pf+r.Pick([]string{"", "\x00", "a", "b"})), pf[:len(pf)-1]+"-range"
				e, ce = []byte(pf+r.Pick([]string{"b", "z", "\xff\xff", "\x01", "c"})), pf[:len(pf)-1]+"-range"
			}
			name := "iter"
			if c >= 10 {
				name = "riter"
			}
			op = opRec{Op: name, S: hp(s), E: hp(e), C: cs, C2: ce}
			p, _ := hx.Catch(func() {
				var it storetypes.Iterator
				if name == "iter" {
					it = store.Iterator(s, e)
				} else {
					it = store.ReverseIterator(s, e)
				}
				ob.KV = readIter(it)
				ob.R = "iter"
			})
			if p {
				ob = obs{R: "panic"}
			}
		}
		ob.Subj = dump(subject, nil, nil)
		ob.Subst = dump(substitute, nil, nil)
		ob.Rest = rest(parent)
		ops = append(ops, op)
		outs = append(outs, ob)
	}
	in["ops"] = ops
	tag := kindName
	if corpus != nil {
		tag = "corpus-F7/" + kindName
	}
	o.Emit("recovery_store", in, outs, tag)
}

func iterOp(name string, s, e []byte, cs, ce string) func(store storetypes.KVStore) (opRec, obs) {
	return func(store storetypes.KVStore) (opRec, obs) {
		op := opRec{Op: name, S: hp(s), E: hp(e), C: cs, C2: ce}
		var ob obs
		p, _ := hx.Catch(func() {
			var it storetypes.Iterator
			if name == "iter" {
				it = store.Iterator(s, e)
			} else {
				it = store.ReverseIterator(s, e)
			}
			ob.KV = readIter(it)
			ob.R = "iter"
		})
		if p {
			ob = obs{R: "panic"}
		}
		return op, ob
	}
}

// corpusF7 is the witness of finding F7 (fixed by /repo commit 71f1b5a): a subject entry whose key starts
// with 0x00 and iterators over ranges without one consistent prefix. It runs first, on every parent kind.
func corpusF7() *scripted {
	return &scripted{
		subj: [][2][]byte{{[]byte("\x00\x03abc"), []byte("secret")}, {[]byte("\x00\x03abd"), []byte("s2")}, {[]byte("zz"), []byte("v")}},
		ops: []func(store storetypes.KVStore) (opRec, obs){
			iterOp("iter", []byte("foo"), []byte("bar"), "unprefixed", "unprefixed"),
			iterOp("riter", []byte("foo"), []byte("bar"), "unprefixed", "unprefixed"),
			iterOp("iter", []byte("subject/a"), []byte("substitute/b"), "subject", "substitute"),
			iterOp("riter", []byte("substitute/"), []byte("subject/z"), "prefix-only", "subject"),
			iterOp("iter", nil, nil, "nil", "nil"),
			iterOp("iter", []byte("subject/"), []byte("subject0"), "prefix-only", "near-miss"),
			iterOp("iter", []byte("subject/\x00"), []byte("subject/\x01"), "subject-bound", "subject-bound"),
		},
	}
}

// TestFamily writes the trace of the `wasmstore` scenario family.
func TestFamily(t *testing.T) {
	r := hx.NewRng("wasmstore")
	o := hx.NewOut()
	defer o.Close()
	for _, kind := range parentKinds {
		history(r, o, kind, 0, corpusF7())
	}
	n := hx.N(240, 2400)
	for i := 0; i < n; i++ {
		history(r, o, parentKinds[i%len(parentKinds)], 6+r.Intn(10), nil)
	}
	t.Logf("records=%d", o.Count())
}
