module verif/harness-wasm

go 1.26.5

replace github.com/cosmos/ibc-go/modules/light-clients/08-wasm/v11 => /repo/modules/light-clients/08-wasm

replace github.com/cosmos/ibc-go/v11 => /repo

replace github.com/syndtr/goleveldb => github.com/syndtr/goleveldb v1.0.1-0.20210819022825-2ae1ddf74ef7

require (
	github.com/cosmos/cosmos-db v1.1.3
	github.com/cosmos/cosmos-sdk/store/v2 v2.0.0
	github.com/cosmos/ibc-go/modules/light-clients/08-wasm/v11 v11.0.0
)

require (
	cosmossdk.io/errors v1.1.0 // indirect
	cosmossdk.io/log/v2 v2.1.0 // indirect
	cosmossdk.io/math v1.5.3 // indirect
	github.com/CosmWasm/wasmvm/v3 v3.0.7 // indirect
	github.com/DataDog/zstd v1.5.7 // indirect
	github.com/beorn7/perks v1.0.1 // indirect
	github.com/bytedance/gopkg v0.1.4 // indirect
	github.com/bytedance/sonic v1.15.1 // indirect
	github.com/bytedance/sonic/loader v0.5.1 // indirect
	github.com/cespare/xxhash/v2 v2.3.0 // indirect
	github.com/cloudflare/circl v1.6.3 // indirect
	github.com/cloudwego/base64x v0.1.7 // indirect
	github.com/cockroachdb/errors v1.13.0 // indirect
	github.com/cockroachdb/fifo v0.0.0-20240816210425-c5d0cb0b6fc0 // indirect
	github.com/cockroachdb/logtags v0.0.0-20241215232642-bb51bb14a506 // indirect
	github.com/cockroachdb/pebble v1.1.5 // indirect
	github.com/cockroachdb/redact v1.1.8 // indirect
	github.com/cockroachdb/tokenbucket v0.0.0-20250429170803-42689b6311bb // indirect
	github.com/cometbft/cometbft v0.40.0 // indirect
	github.com/cosmos/btree v1.0.0 // indirect
	github.com/cosmos/cosmos-proto v1.0.0-beta.5 // indirect
	github.com/cosmos/gogoproto v1.7.2 // indirect
	github.com/cosmos/ics23/go v0.11.0 // indirect
	github.com/decred/dcrd/dcrec/secp256k1/v4 v4.4.1 // indirect
	github.com/getsentry/sentry-go v0.46.2 // indirect
	github.com/gogo/protobuf v1.3.2 // indirect
	github.com/golang/protobuf v1.5.4 // indirect
	github.com/golang/snappy v1.0.1-0.20260716114414-9ae09f520e93 // indirect
	github.com/google/btree v1.1.3 // indirect
	github.com/google/go-cmp v0.7.0 // indirect
	github.com/klauspost/cpuid/v2 v2.3.0 // indirect
	github.com/kr/pretty v0.3.1 // indirect
	github.com/kr/text v0.2.0 // indirect
	github.com/mattn/go-colorable v0.1.14 // indirect
	github.com/mattn/go-isatty v0.0.24 // indirect
	github.com/munnerz/goautoneg v0.0.0-20191010083416-a7dc8b61c822 // indirect
	github.com/oasisprotocol/curve25519-voi v0.0.0-20251114093237-2ab5a27a1729 // indirect
	github.com/pkg/errors v0.9.1 // indirect
	github.com/prometheus/client_golang v1.24.1 // indirect
	github.com/prometheus/client_model v0.6.2 // indirect
	github.com/prometheus/common v0.70.1 // indirect
	github.com/prometheus/procfs v0.21.1 // indirect
	github.com/rogpeppe/go-internal v1.14.1 // indirect
	github.com/rs/zerolog v1.35.1 // indirect
	github.com/shamaton/msgpack/v2 v2.2.3 // indirect
	github.com/spf13/cast v1.10.0 // indirect
	github.com/syndtr/goleveldb v1.0.1-0.20220721030215-126854af5e6d // indirect
	github.com/twitchyliquid64/golang-asm v0.15.1 // indirect
	go.opentelemetry.io/otel v1.44.0 // indirect
	go.opentelemetry.io/otel/trace v1.44.0 // indirect
	golang.org/x/arch v0.26.0 // indirect
	golang.org/x/crypto v0.54.0 // indirect
	golang.org/x/exp v0.0.0-20260527015227-08cc5374adb3 // indirect
	golang.org/x/net v0.57.0 // indirect
	golang.org/x/sys v0.47.0 // indirect
	golang.org/x/text v0.40.0 // indirect
	google.golang.org/genproto/googleapis/rpc v0.0.0-20260526163538-3dc84a4a5aaa // indirect
	google.golang.org/grpc v1.83.0 // indirect
	google.golang.org/protobuf v1.36.12 // indirect
)
