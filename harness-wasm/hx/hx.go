// Package hx holds what every scenario family shares: the deterministic PRNG,
// the JSONL trace writer, tier sizes and a panic catcher.
package hx

import (
	"bufio"
	"encoding/hex"
	"encoding/json"
	"fmt"
	"hash/fnv"
	"os"
	"strconv"
)

// Rng is splitmix64. Every random choice of a family derives from one state
// seeded by VERIF_SEED and the family name, so a trace replays exactly.
type Rng struct{ s uint64 }

func NewRng(family string) *Rng {
	seed := uint64(1)
	if v := os.Getenv("VERIF_SEED"); v != "" {
		if n, err := strconv.ParseUint(v, 10, 64); err == nil {
			seed = n
		}
	}
	h := fnv.New64a()
	h.Write([]byte(family))
	return &Rng{s: seed*0x9E3779B97F4A7C15 ^ h.Sum64()}
}

func (r *Rng) U64() uint64 {
	r.s += 0x9E3779B97F4A7C15
	z := r.s
	z = (z ^ (z >> 30)) * 0xBF58476D1CE4E5B9
	z = (z ^ (z >> 27)) * 0x94D049BB133111EB
	return z ^ (z >> 31)
}

// Intn returns a value in [0,n).
func (r *Rng) Intn(n int) int {
	if n <= 0 {
		return 0
	}
	return int(r.U64() % uint64(n))
}

func (r *Rng) Bool() bool { return r.U64()&1 == 1 }

// Chance is true with probability num/den.
func (r *Rng) Chance(num, den int) bool { return r.Intn(den) < num }

var boundaries = []uint64{0, 1, 2, 9, 10, 11, 99, 100, 255, 256, 1<<31 - 1, 1 << 31, 1<<32 - 1, 1 << 32,
	1<<53 - 1, 1 << 53, 1<<53 + 1, 1<<63 - 1, 1 << 63, 1<<63 + 1, 1<<64 - 2, 1<<64 - 1,
	999999999, 1000000000, 1000000001}

// U64B draws a uint64 biased towards boundaries, small values and neighbours of prev values.
func (r *Rng) U64B(near ...uint64) uint64 {
	switch r.Intn(6) {
	case 0:
		return boundaries[r.Intn(len(boundaries))]
	case 1:
		return uint64(r.Intn(20))
	case 2:
		if len(near) > 0 {
			n := near[r.Intn(len(near))]
			return n + uint64(r.Intn(5)) - 2
		}
		return r.U64()
	case 3:
		return r.U64() >> uint(r.Intn(64))
	case 4:
		if len(near) > 0 {
			return near[r.Intn(len(near))]
		}
		return uint64(r.Intn(1000))
	default:
		return r.U64()
	}
}

func (r *Rng) Pick(xs []string) string { return xs[r.Intn(len(xs))] }

// Bytes returns n random bytes.
func (r *Rng) Bytes(n int) []byte {
	b := make([]byte, n)
	for i := range b {
		b[i] = byte(r.U64())
	}
	return b
}

// Str draws a string of length in [lo,hi] over the alphabet.
func (r *Rng) Str(alphabet string, lo, hi int) string {
	n := lo
	if hi > lo {
		n += r.Intn(hi - lo + 1)
	}
	b := make([]byte, n)
	for i := range b {
		b[i] = alphabet[r.Intn(len(alphabet))]
	}
	return string(b)
}

// Tier returns "quick" or "thorough".
func Tier() string {
	if os.Getenv("VERIF_TIER") == "thorough" {
		return "thorough"
	}
	return "quick"
}

// N picks a count by tier.
func N(quick, thorough int) int {
	if Tier() == "thorough" {
		return thorough
	}
	return quick
}

// Out is the JSONL trace writer (VERIF_OUT, default stdout).
type Out struct {
	f *os.File
	w *bufio.Writer
	n int
}

func NewOut() *Out {
	p := os.Getenv("VERIF_OUT")
	f := os.Stdout
	if p != "" {
		var err error
		f, err = os.Create(p)
		if err != nil {
			panic(err)
		}
	}
	return &Out{f: f, w: bufio.NewWriterSize(f, 1<<20)}
}

// Rec is one trace record: kind k, inputs in, observed outputs out.
type Rec struct {
	K   string `json:"k"`
	In  any    `json:"in"`
	Out any    `json:"out"`
	// Tag optionally labels the generator mode that produced the input.
	Tag string `json:"tag,omitempty"`
}

func (o *Out) Emit(k string, in, out any, tag ...string) {
	r := Rec{K: k, In: in, Out: out}
	if len(tag) > 0 {
		r.Tag = tag[0]
	}
	b, err := json.Marshal(r)
	if err != nil {
		panic(fmt.Sprintf("marshal %s: %v", k, err))
	}
	o.w.Write(b)
	o.w.WriteByte('\n')
	o.n++
}

func (o *Out) Count() int { return o.n }

func (o *Out) Close() {
	o.w.Flush()
	if o.f != os.Stdout {
		o.f.Close()
	}
}

// H hex-encodes bytes (strings and byte slices travel as hex in traces).
func H(b []byte) string  { return hex.EncodeToString(b) }
func HS(s string) string { return hex.EncodeToString([]byte(s)) }

// U renders a uint64 as a decimal string (JSON numbers above 2^53 are unsafe in some readers).
func U(x uint64) string { return strconv.FormatUint(x, 10) }

// Catch runs f and reports whether it panicked.
func Catch(f func()) (panicked bool, msg string) {
	defer func() {
		if r := recover(); r != nil {
			panicked = true
			msg = fmt.Sprint(r)
		}
	}()
	f()
	return false, ""
}
