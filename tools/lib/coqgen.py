"""Helpers that turn trace values into Gallina terms."""

def N(x):
    return "%d" % int(x)

def Z(x):
    x = int(x)
    return "(%d)%%Z" % x if x < 0 else "%d%%Z" % x

def nat(x):
    return "%d%%nat" % int(x)

def b(x):
    return "true" if x else "false"

def hx(h):
    """hex string (as produced by hx.H / hx.HS) -> bytes term"""
    return '(hx "%s")' % h

def opt(x, f):
    return "None" if x is None else "(Some %s)" % f(x)

def lst(xs, f):
    return "[" + "; ".join(f(x) for x in xs) + "]"

def height(h):
    return "(mkH %s %s)" % (N(h[0]), N(h[1]))

def pair(a, b_):
    return "(%s, %s)" % (a, b_)
