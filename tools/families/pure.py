"""`pure` family: exported pure functions on generated and boundary inputs."""
from lib.coqgen import N, Z, b, hx, opt, lst, height

NAME = "pure"
GO_PKG = "./pure"
COQ_IMPORTS = "From IBC Require Import Lib.Bytes Lib.Dec Lib.CorrLib Core.Height Corr.Pure."
CASE_TYPE = "Case"
CHECK = "check"

U64 = 1 << 64

# ---- C17 -------------------------------------------------------------------------------------

def enc_height_cmp(r):
    a, bb = r["in"]
    o = r["out"]
    return "HeightCmp %s %s %s %s" % (height(a), height(bb), Z(o[0]), " ".join(b(x) for x in o[1:]))

def spec_height_cmp(r):
    a = tuple(int(x) for x in r["in"][0]); bb = tuple(int(x) for x in r["in"][1])
    cmp_ = (a > bb) - (a < bb)
    want = [cmp_, a < bb, a <= bb, a > bb, a >= bb, a == bb, a == (0, 0)]
    if list(r["out"]) != want:
        return "Height comparison of %s and %s returned %s; the lexicographic order requires %s" % (a, bb, r["out"], want)

def enc_height_str(r):
    return "HeightStr %s %s" % (height(r["in"]), hx(r["out"]))

def spec_height_str(r):
    want = ("%d-%d" % (int(r["in"][0]), int(r["in"][1]))).encode().hex()
    if r["out"] != want:
        return "Height.String(%s) = %r" % (r["in"], bytes.fromhex(r["out"]))

def enc_height_parse(r):
    return "HeightParse %s %s" % (hx(r["in"]), opt(r["out"], height))

def spec_height_parse(r):
    s = bytes.fromhex(r["in"]).decode("latin1")
    parts = s.split("-")
    want = None
    if len(parts) == 2 and all(p != "" and all(c in "0123456789" for c in p) for p in parts):
        v = [int(p) for p in parts]
        if all(x < U64 for x in v):
            want = [str(x) for x in v]
    if r["out"] != want:
        if r.get("tag") == "formatted":
            return "ParseHeight(String(h)) did not return h: %r -> %s" % (s, r["out"])
        if r["out"] is not None and any(int(x) >= U64 for x in r["out"]):
            return "ParseHeight accepted a component outside 64 bits: %r" % s
        return "ParseHeight(%r) = %s, strconv.ParseUint semantics require %s" % (s, r["out"], want)

def enc_elapsed(r):
    th, tts, h, ts = r["in"]
    o = r["out"]
    return "Elapsed (mkT %s %s) %s %s %s %s %s" % (height(th), N(tts), height(h), N(ts), b(o[0]), b(o[1]), b(o[2]))

def spec_elapsed(r):
    th, tts, h, ts = r["in"]
    th = tuple(int(x) for x in th); h = tuple(int(x) for x in h); tts = int(tts); ts = int(ts)
    he = th != (0, 0) and h >= th
    te = tts != 0 and ts >= tts
    want = [he or te, th != (0, 0) or tts != 0, te]
    if list(r["out"]) != want:
        return "Timeout(%s,%d).Elapsed(%s,%d) = %s, required %s" % (th, tts, h, ts, r["out"], want)

KINDS = {
    "height_cmp": dict(props=["C17"], enc=enc_height_cmp, spec=spec_height_cmp, exact=True),
    "height_str": dict(props=["C17"], enc=enc_height_str, spec=spec_height_str, exact=True),
    "height_parse": dict(props=["C17"], enc=enc_height_parse, spec=spec_height_parse, exact=True),
    "elapsed": dict(props=["C17"], enc=enc_elapsed, spec=spec_elapsed, exact=True),
}

KNOWN = {}
