"""`clients` family: solo machine (C26), localhost (C27), attestations (C28) through the real 02-client keeper."""
import hashlib
import re
from lib.coqgen import N, b, hx, opt, lst, height

NAME = "clients"
GO_PKG = "./clients"
COQ_IMPORTS = ("From IBC Require Import Lib.Bytes Lib.CorrLib Core.Height Clients.WasmStore Clients.Localhost "
               "Clients.Solo Clients.Attest Corr.Clients.")
CASE_TYPE = "Case"
CHECK = "check"

U64 = 1 << 64
OUT = {"ok": "Ok", "err": "Err", "panic": "Panic"}


_HX = re.compile(r'\(hx "([0-9a-f]{16,})"\)')


def intern(term):
    """share repeated long byte-string literals of one record through let-bindings (Coq spends most of the
    evaluation time parsing string literals)"""
    cnt = {}
    for m in _HX.finditer(term):
        cnt[m.group(1)] = cnt.get(m.group(1), 0) + 1
    names = {}
    for h, c in cnt.items():
        if c > 1:
            names[h] = "x%d_" % len(names)
    if not names:
        return term
    body = _HX.sub(lambda m: names.get(m.group(1), m.group(0)), term)
    lets = "".join('let %s := hx "%s" in ' % (v, h) for h, v in names.items())
    return lets + body


def bz(x):
    """hex or None -> bytes term (nil and empty byte strings are the same value in the models)"""
    return hx(x or "")


def sid(s):
    """short textual ids (signature ids) as byte strings"""
    return hx((s or "").encode().hex())


def path_term(p):
    return "POther" if p is None else "(PMerkle %s)" % lst(p, hx)


def kvl(d):
    return lst(d, lambda p: "(%s, %s)" % (hx(p[0]), hx(p[1])))


# ================================================================================ localhost (C27)

def enc_lh_verify(r):
    i = r["in"]
    return "LhVerify %s %s %s %s %s %s %s %s" % (height(i["self"]), height(i["height"]), bz(i["proof"]), path_term(i["path"]),
                                             bz(i["value"]), b(i["nonmember"]), kvl(i["store"]), OUT[r["out"]])


def spec_lh_verify(r):
    i = r["in"]
    selfh = tuple(int(x) for x in i["self"]); h = tuple(int(x) for x in i["height"])
    store = {bytes.fromhex(k): bytes.fromhex(v) for k, v in i["store"]}
    proof = bytes.fromhex(i["proof"] or ""); value = bytes.fromhex(i["value"] or "")
    p = i["path"]
    if r["out"] == "panic":
        # only the underlying store's refusal of an empty key
        if not (p is not None and len(p) == 2 and p[1] == ""):
            return "localhost verification panicked on %s" % i
        return None
    wellformed = h <= selfh and proof == b"\x01" and p is not None and len(p) == 2
    if wellformed and p[1] == "":
        return None
    key = bytes.fromhex(p[1]) if wellformed else None
    if i["nonmember"]:
        want = wellformed and key not in store
        what = "key absent from the chain's own store"
    else:
        want = wellformed and key in store and store[key] == value
        what = "the chain's own store holds exactly that value at that key"
    if (r["out"] == "ok") != want:
        return "localhost %s returned %s but (height <= own height, sentinel proof, path of length 2, %s) is %s: %s" % (
            "VerifyNonMembership" if i["nonmember"] else "VerifyMembership", r["out"], what, want,
            dict(self=selfh, height=h, proof=i["proof"], path=p, value=i["value"], stored=store.get(key, None) if key is not None else None))


REFUSING = {"k-create": "KCreateClient %(a)s %(b)s", "k-update-header": "KUpdateClient %(a)s", "k-update-misbehaviour": "KUpdateClient %(a)s",
            "k-upgrade": "KUpgradeClient %(a)s %(b)s %(c)s %(d)s", "k-recover": "KRecoverClient %(s)s",
            "m-initialize": "MInitialize %(a)s %(b)s", "m-verify-client-message": "MVerifyClientMessage %(a)s",
            "m-recover": "MRecoverClient %(s)s", "m-upgrade": "MVerifyUpgrade %(a)s %(b)s %(c)s %(d)s"}


def enc_lh_clientop(r):
    i = r["in"]; o = r["out"]
    if i["op"] in REFUSING:
        t = REFUSING[i["op"]] % dict(a=hx(i["a"]), b=hx(i["b"]), c=hx(i["c"]), d=hx(i["d"]), s=hx(i["substitute"]))
        return "LhClientOp %s (%s) %s %s" % (b(i["allowed"]), t, OUT[o["r"]], b(o["unchanged"]))
    return "LhNoop %s %s %s" % (b(o.get("misbehaviour", False)), OUT[o["r"]], b(o["unchanged"]))


def spec_lh_clientop(r):
    i = r["in"]; o = r["out"]
    if not o["unchanged"]:
        return "client operation %s addressed to the localhost client changed the IBC store" % i["op"]
    if i["op"] in REFUSING and o["r"] == "ok":
        return "client operation %s addressed to the localhost client succeeded" % i["op"]
    if i["op"] not in REFUSING and (o.get("misbehaviour") or o.get("status", "Active") != "Active"):
        return "localhost client reported misbehaviour or a status other than Active: %s" % o


# ============================================================================== solo machine (C26)

def pb_varint(v):
    out = bytearray()
    while v >= 0x80:
        out.append((v & 0x7f) | 0x80); v >>= 7
    out.append(v)
    return bytes(out)


def pb_sign_bytes(seq, ts, div, path, data):
    """independent proto3 encoder of solomachine.v3.SignBytes (monitor side)"""
    out = b""
    if seq:
        out += b"\x08" + pb_varint(seq)
    if ts:
        out += b"\x10" + pb_varint(ts)
    for tag, v in ((0x1a, div), (0x22, path), (0x2a, data)):
        if v:
            out += bytes([tag]) + pb_varint(len(v)) + v
    return out


def pb_header_data(pk, div):
    out = b""
    if pk is not None:
        out += b"\x0a" + pb_varint(len(pk)) + pk
    if div:
        out += b"\x12" + pb_varint(len(div)) + div
    return out


def enc_sm_signbytes(r):
    seq, ts, div, path, data = r["in"]
    return "SmSignBytes %s %s %s %s %s %s" % (N(seq), N(ts), hx(div), hx(path), hx(data), hx(r["out"]))


def spec_sm_signbytes(r):
    seq, ts, div, path, data = r["in"]
    want = pb_sign_bytes(int(seq), int(ts), bytes.fromhex(div), bytes.fromhex(path), bytes.fromhex(data))
    if want.hex() != r["out"]:
        return "SignBytes%s marshals to %s, proto3 requires %s" % (r["in"], r["out"], want.hex())


def enc_sm_headerdata(r):
    pk, div = r["in"]
    return "SmHeaderData %s %s %s" % (opt(pk, hx), hx(div), hx(r["out"]))


def spec_sm_headerdata(r):
    pk, div = r["in"]
    want = pb_header_data(None if pk is None else bytes.fromhex(pk), bytes.fromhex(div))
    if want.hex() != r["out"]:
        return "HeaderData%s marshals to %s, proto3 requires %s" % (r["in"], r["out"], want.hex())


def sm_state(s):
    return "(mkSm %s %s %s %s %s)" % (N(s["seq"]), b(s["frozen"]), hx(s["pk"]), hx(s["div"]), N(s["ts"]))


def sm_proof(p):
    if p is None:
        return "ProofNil"
    if p == "bad":
        return "ProofBad"
    return "(ProofTsd %s %s)" % (sid(p["sd"]), N(p["ts"]))


def sm_sd(s):
    if s is None:
        return "None"
    return "(Some (mkSD %s %s %s %s %s))" % (sid(s["sig"]), hx(s["path"]), b(s["path_ok"]), hx(s["data"]), N(s["ts"]))


def sm_op(o):
    t = o["op"]
    if t == "update":
        return "OpUpdate (mkHeader %s %s %s %s)" % (N(o["ts"]), sid(o["sig"]), opt(o["newpk"], hx), hx(o["newdiv"]))
    if t == "vm":
        return "OpVerifyMembership %s %s %s" % (sm_proof(o["proof"]), path_term(o["path"]), hx(o["value"]))
    if t == "vnm":
        return "OpVerifyNonMembership %s %s" % (sm_proof(o["proof"]), path_term(o["path"]))
    if t == "mb":
        return "OpMisbehaviour %s %s %s" % (N(o["seq"]), sm_sd(o["s1"]), sm_sd(o["s2"]))
    if t == "recover":
        return "OpRecover %s" % opt(o["sub"], sm_state)
    raise ValueError(t)


def enc_solo_history(r):
    i = r["in"]
    sigs = lst(sorted(i["sigs"].items()), lambda kv: "(%s, (%s, %s))" % (sid(kv[0]), hx(kv[1][0]), hx(kv[1][1])))
    ops = lst(i["ops"], lambda o: "(" + sm_op(o) + ")")
    obs = lst(r["out"], lambda o: "(%s, %s)" % (OUT[o["r"]], sm_state(o)))
    return intern("SoloHistory %s %s %s %s %s" % (sm_state(i["init"]), sigs, lst(i["malformed"], sid), ops, obs))


def _sm_expected(st, o):
    """(sign bytes the code must have verified, signature id) of a verification op in state st, or None"""
    t = o["op"]
    seq, div = int(st["seq"]), bytes.fromhex(st["div"])
    if t == "update":
        if o["newpk"] is None:
            return None
        data = pb_header_data(bytes.fromhex(o["newpk"]), bytes.fromhex(o["newdiv"]))
        return pb_sign_bytes(seq, int(o["ts"]), div, b"solomachine:header", data), o["sig"], int(o["ts"])
    if t in ("vm", "vnm"):
        p = o["proof"]
        if not isinstance(p, dict) or o["path"] is None or len(o["path"]) != 2:
            return None
        data = bytes.fromhex(o["value"]) if t == "vm" else b""
        return pb_sign_bytes(seq, int(p["ts"]), div, bytes.fromhex(o["path"][1]), data), p["sd"], int(p["ts"])
    return None


def solo_violations(r):
    i = r["in"]; out = []
    st = i["init"]
    sigs = i["sigs"]
    seen = {}
    for n, (o, ob) in enumerate(zip(i["ops"], r["out"])):
        t = o["op"]
        proj = lambda s: (s["seq"], s["ts"], s["frozen"], s["div"], s["pk"])
        if ob["r"] != "ok":
            if proj(ob) != proj(st):
                out.append((n, "operation %s failed (%s) but changed the client state from %s to %s" % (t, ob["r"], proj(st), proj(ob))))
        elif t in ("update", "vm", "vnm"):
            if st["frozen"]:
                out.append((n, "frozen solo machine client accepted a %s" % t))
            if int(ob["seq"]) != (int(st["seq"]) + 1) % U64:
                out.append((n, "successful %s moved the sequence from %s to %s (must consume exactly one)" % (t, st["seq"], ob["seq"])))
            if int(ob["ts"]) < int(st["ts"]):
                out.append((n, "successful %s decreased the consensus timestamp from %s to %s" % (t, st["ts"], ob["ts"])))
            exp = _sm_expected(st, o)
            if exp is None:
                out.append((n, "malformed %s was accepted: %s" % (t, o)))
            else:
                msg, sg, ts = exp
                if int(ob["ts"]) != ts:
                    out.append((n, "accepted %s with timestamp %d left consensus timestamp %s" % (t, ts, ob["ts"])))
                ent = sigs.get(sg)
                if ent is None or ent[0] != st["pk"] or ent[1] != msg.hex():
                    out.append((n, "%s accepted signature %s which %s; the sign bytes of (sequence %s, timestamp %d, diversifier %r, path, data) are %s" % (
                        t, sg, "was not produced by the registered key" if ent is None or ent[0] != st["pk"] else "was produced over other sign bytes " + ent[1],
                        st["seq"], ts, bytes.fromhex(st["div"]), msg.hex())))
                if sg in seen:
                    out.append((n, "signature %s accepted twice in one history (operations %d and %d)" % (sg, seen[sg], n)))
                seen[sg] = n
        elif t == "mb":
            if not ob["frozen"]:
                out.append((n, "accepted misbehaviour did not freeze the client"))
            if st["frozen"]:
                out.append((n, "frozen client accepted misbehaviour"))
        elif t == "recover":
            if int(ob["seq"]) <= int(st["seq"]):
                out.append((n, "recovery did not increase the sequence (%s -> %s)" % (st["seq"], ob["seq"])))
        # valid misbehaviour must freeze
        if t == "mb" and not st["frozen"] and o["s1"] and o["s2"] and int(o["seq"]) != 0:
            s1, s2 = o["s1"], o["s2"]
            def good(s):
                if not (s["sig"] and s["data"] and s["path"] and int(s["ts"]) != 0 and s["path_ok"]):
                    return False
                ent = sigs.get(s["sig"])
                m = pb_sign_bytes(int(o["seq"]), int(s["ts"]), bytes.fromhex(st["div"]), bytes.fromhex(s["path"]), bytes.fromhex(s["data"]))
                return ent is not None and ent[0] == st["pk"] and ent[1] == m.hex()
            different = s1["sig"] != s2["sig"] and not (s1["path"] == s2["path"] and s1["data"] == s2["data"])
            if good(s1) and good(s2) and different and not (ob["r"] == "ok" and ob["frozen"]):
                out.append((n, "two valid signatures over different data for sequence %s did not freeze the client (%s)" % (o["seq"], ob["r"])))
        st = ob
    return out


def spec_solo_history(r):
    v = solo_violations(r)
    if v:
        return "op %d (%s): %s" % (v[0][0], r["in"]["ops"][v[0][0]].get("note", ""), v[0][1])


# =============================================================================== attestations (C28)

def rec_table(t):
    return lst(t, lambda e: "(%s, (%s, %s))" % (hx(e[0]), hx(e[1]), opt(e[2], hx)))


def enc_att_verify_sigs(r):
    i = r["in"]
    return intern("AttVerifySigs %s %s %s %s %s %s %s" % (lst(i["attestors"], hx), N(i["min"]), hx(i["data"]), lst(i["sigs"], hx), N(i["tag"]),
                                                rec_table(i["recover"]), b(r["out"] == "ok")))


def tagged(tag, data):
    return hashlib.sha256(bytes([tag]) + hashlib.sha256(data).digest()).digest()


def norm(sig):
    s = bytearray(sig)
    if len(s) == 65:
        if s[64] == 27:
            s[64] = 0
        elif s[64] == 28:
            s[64] = 1
    return bytes(s)


def quorum_ok(attestors, minsigs, data, sigs, tag, recover):
    """the property's acceptance condition, from the recorded per-signature recovery results"""
    tab = {(e[0], e[1]): e[2] for e in recover}
    if not sigs or len(sigs) < minsigs:
        return False, "fewer signatures than the quorum"
    h = tagged(tag, data).hex()
    signers = []
    for s in sigs:
        sb = bytes.fromhex(s)
        if len(sb) != 65:
            return False, "signature of %d bytes" % len(sb)
        a = tab.get((h, norm(sb).hex()))
        if a is None:
            return False, "signature not recoverable over the tagged hash"
        signers.append(a)
    if len(set(signers)) != len(signers):
        return False, "duplicate signer"
    if not set(signers) <= set(attestors):
        return False, "signer outside the attestor set"
    return True, ""


def spec_att_verify_sigs(r):
    i = r["in"]
    if r["out"] == "panic":
        return "verifySignatures panicked"
    want, why = quorum_ok(i["attestors"], int(i["min"]), bytes.fromhex(i["data"]), i["sigs"], i["tag"], i["recover"])
    if (r["out"] == "ok") != want:
        return "verifySignatures returned %s; quorum of distinct configured attestors over the type-%d tagged hash: %s %s" % (r["out"], i["tag"], want, why)


def att_state(s):
    return "(mkAtt %s %s %s %s %s)" % (lst(s["attestors"], hx), N(s["min"]), N(s["latest"]), b(s["frozen"]),
                                      lst(s["cons"], lambda c: "(%s, %s)" % (N(c[0]), N(c[1]))))


def att_proof(p):
    if p is None:
        return "AProofBad"
    return "(AProofOk %s %s)" % (hx(p["data"]), lst(p["sigs"], hx))


def att_op(o):
    t = o["op"]
    if t == "update":
        return "AUpdate %s %s" % (hx(o["data"]), lst(o["sigs"], hx))
    if t == "update-other":
        return "AUpdateOther"
    if t == "vm":
        return "AVerifyMembership %s %s %s %s" % (height(o["height"]), att_proof(o["proof"]), path_term(o["path"]), hx(o["value"]))
    if t == "vnm":
        return "AVerifyNonMembership %s %s %s" % (height(o["height"]), att_proof(o["proof"]), path_term(o["path"]))
    if t == "recover":
        return "ARecover"
    if t == "upgrade":
        return "AUpgrade"
    raise ValueError(t)


def enc_att_history(r):
    i = r["in"]
    kec = lst(sorted(i["keccak"].items()), lambda kv: "(%s, %s)" % (hx(kv[0]), hx(kv[1])))
    def dp(v):
        return "(%s, %s)" % (N(v["height"]), lst(v["packets"], lambda p: "(%s, %s)" % (hx(p[0]), hx(p[1]))))
    decp = lst(sorted(i["dec_packet"].items()), lambda kv: "(%s, %s)" % (hx(kv[0]), opt(kv[1], dp)))
    decs = lst(sorted(i["dec_state"].items()), lambda kv: "(%s, %s)" % (hx(kv[0]), opt(kv[1], lambda v: "(%s, %s)" % (N(v[0]), N(v[1])))))
    ops = lst(i["ops"], lambda o: "(" + att_op(o) + ")")
    obs = lst(r["out"], lambda o: "(%s, %s, %s, %s)" % (OUT[o["r"]], N(o["latest"]), b(o["frozen"]),
                                                        lst(o["cons"], lambda c: "(%s, %s)" % (N(c[0]), N(c[1])))))
    return intern("AttHistory %s %s %s %s %s %s %s" % (att_state(i["init"]), rec_table(i["recover"]), kec, decp, decs, ops, obs))


def att_violations(r):
    i = r["in"]; out = []
    init = i["init"]
    attestors, minsigs = init["attestors"], int(init["min"])
    st = dict(latest=init["latest"], frozen=init["frozen"], cons=init["cons"])
    zero = "00" * 32
    for n, (o, ob) in enumerate(zip(i["ops"], r["out"])):
        t = o["op"]
        cur = dict(latest=ob["latest"], frozen=ob["frozen"], cons=ob["cons"])
        if ob["r"] != "ok" and cur != st:
            out.append((n, "operation %s failed (%s) but changed the client from %s to %s" % (t, ob["r"], st, cur)))
        if ob["r"] == "ok":
            if st["frozen"]:
                out.append((n, "frozen attestations client accepted %s" % t))
            if t in ("recover", "upgrade", "update-other"):
                out.append((n, "attestations client accepted %s" % t))
            if t in ("update", "vm", "vnm"):
                p = o if t == "update" else o["proof"]
                if p is None:
                    out.append((n, "undecodable proof accepted"))
                else:
                    tag = 1 if t == "update" else 2
                    ok, why = quorum_ok(attestors, minsigs, bytes.fromhex(p["data"]), p["sigs"], tag, i["recover"])
                    if not ok:
                        out.append((n, "%s accepted without a quorum of distinct configured attestors over the type-%d tagged hash of its attestation data: %s" % (t, tag, why)))
            if t == "update":
                ds = i["dec_state"].get(o["data"])
                stored = dict((c[0], c[1]) for c in st["cons"])
                if ds is None:
                    out.append((n, "update with attestation data that is not a state attestation was accepted"))
                elif ds[0] in stored and stored[ds[0]] != ds[1]:
                    if not ob["frozen"]:
                        out.append((n, "conflicting timestamp %s for stored height %s (stored %s) did not freeze the client" % (ds[1], ds[0], stored[ds[0]])))
                    if ob["cons"] != st["cons"]:
                        out.append((n, "conflicting update changed the stored consensus states"))
                else:
                    if ob["frozen"]:
                        out.append((n, "non-conflicting update froze the client"))
                    after = dict((c[0], c[1]) for c in ob["cons"])
                    want = dict(stored); want[ds[0]] = ds[1]
                    if after != want:
                        out.append((n, "update for height %s stored %s, required %s" % (ds[0], after, want)))
            if t in ("vm", "vnm") and o["proof"] is not None:
                dp = i["dec_packet"].get(o["proof"]["data"])
                h = o["height"]
                stored = dict((c[0], c[1]) for c in st["cons"])
                if dp is None:
                    out.append((n, "proof whose attestation data is not a packet attestation was accepted"))
                elif o["path"] is None or len(o["path"]) != 1 or o["path"][0] == "":
                    out.append((n, "proof accepted for a malformed path %s" % (o["path"],)))
                else:
                    kp = i["keccak"].get(o["path"][0])
                    # rule: accepted => attestation height == proof height, and a consensus state at that height
                    if int(dp["height"]) != int(h[1]):
                        out.append((n, "%s accepted at proof height %s for a packet attestation of height %s (attested height must equal the proof height; consensus heights %s)" % (
                            "membership" if t == "vm" else "non-membership", h[1], dp["height"], sorted(int(x) for x in stored))))
                    if h[0] != "0" or h[1] not in stored:
                        out.append((n, "proof accepted at height %s-%s without a consensus state (stored: %s)" % (h[0], h[1], sorted(int(x) for x in stored))))
                    mine = [c for (p_, c) in dp["packets"] if p_ == kp]
                    if t == "vm":
                        if len(o["value"]) != 64 or o["value"] not in mine:
                            out.append((n, "membership accepted but (keccak(path), value) = (%s, %s) is not among the attested packets %s" % (kp, o["value"], dp["packets"])))
                    else:
                        if not mine or any(c != zero for c in mine):
                            out.append((n, "non-membership accepted but the path is attested with commitments %s" % (mine,)))
        st = cur
    return out


def spec_att_history(r):
    v = att_violations(r)
    if v:
        return "op %d (%s): %s" % (v[0][0], r["in"]["ops"][v[0][0]].get("note", ""), v[0][1])


KINDS = {
    "lh_verify": dict(props=["C27"], enc=enc_lh_verify, spec=spec_lh_verify, exact=True),
    "lh_clientop": dict(props=["C27"], enc=enc_lh_clientop, spec=spec_lh_clientop, exact=True),
    "sm_signbytes": dict(props=["C26"], enc=enc_sm_signbytes, spec=spec_sm_signbytes, exact=True),
    "sm_headerdata": dict(props=["C26"], enc=enc_sm_headerdata, spec=spec_sm_headerdata, exact=True),
    "solo_history": dict(props=["C26"], enc=enc_solo_history, spec=spec_solo_history, exact=True),
    "att_verify_sigs": dict(props=["C28"], enc=enc_att_verify_sigs, spec=spec_att_verify_sigs, exact=True),
    "att_history": dict(props=["C28"], enc=enc_att_history, spec=spec_att_history, exact=True),
}

KNOWN = {}
