"""`core` family: two-chain packet histories (IBC v1 ORDERED/UNORDERED, v2 clients, v2 over channel alias)
against the real keepers; one record = one history."""
from lib.coqgen import N, b, lst

NAME = "core"
GO_PKG = "./core"
COQ_IMPORTS = "From IBC Require Import Lib.Bytes Lib.CorrLib Core.Height Core.Chain Core.World Corr.CoreFam."
CASE_TYPE = "FCase"
CHECK = "fcheck"

PROPS = ["C01", "C02", "C03", "C04", "C05", "C06", "C08", "C09", "C10", "C11", "C14"]

# ------------------------------------------------------------------------------------------ encoder

def H(h):
    return "(mkH %s %s)" % (N(h[0]), N(h[1]))

STATE = {"STATE_INIT": "ST_INIT", "STATE_TRYOPEN": "ST_TRYOPEN", "STATE_OPEN": "ST_OPEN", "STATE_CLOSED": "ST_CLOSED"}
ORD = {"ORDER_ORDERED": "ORDERED", "ORDER_UNORDERED": "UNORDERED"}
OUT = {"ok": "Ok", "noop": "Noop", "err": "Err", "panic": "Panic"}
RECV = {"success": "RSuccess", "error": "RError", "async": "RAsync", "sentinel": "RSentinelSuccess"}

def k2(p, c):
    return "(%s, %s)" % (N(p), N(c))

def k3(p, c, s):
    return "(%s, %s, %s)" % (N(p), N(c), N(s))

def ks(i, s):
    return "(%s, %s)" % (N(i), N(s))

def enc_chain(c):
    chs = lst(c["chans"], lambda x: "(%s, mkChan %s %s %s %s %s %s)" % (k2(x[0], x[1]), STATE[x[2]], ORD[x[3]], N(x[4]), N(x[5]), N(x[6]), N(x[7])))
    cns = lst(c["conns"], lambda x: "(%s, mkConn %s %s %s)" % (N(x[0]), b(x[1]), N(x[2]), N(x[3])))
    pts = lst(c["ports"], N)
    ns = lst(c["ns"], lambda x: "(%s, %s)" % (N(x[0]), N(x[1])))
    nr = lst(c["nr"], lambda x: "(%s, %s)" % (k2(x[0], x[1]), N(x[2])))
    na = lst(c["na"], lambda x: "(%s, %s)" % (k2(x[0], x[1]), N(x[2])))
    cps = lst(c["cps"], lambda x: "(%s, %s)" % (N(x[0]), N(x[1])))
    als = lst(c["als"], lambda x: "(%s, %s)" % (N(x[0]), N(x[1])))
    chain = "(init_chain %s %s %s %s %s %s %s %s %s %s)" % (chs, cns, pts, ns, nr, na, cps, als, H([c["h"][0], str(int(c["h"][1]) - 1)]), N(c["t"]))  # "h" is the height of the NEXT block: the state is at h-1
    cls = lst(c["clients"], lambda x: "(%s, mkClient %s %s %s %s)" % (
        N(x[0]), b(x[1]), H(x[2]), N(x[3]),
        lst(x[4], lambda y: "(%s, (%s, %s))" % (H(y[0]), N(y[1]), N(y[2])))))
    return "(init_wchain %s %s %s)" % (chain, cls, N(c["ver"]))

def enc_p1(p):
    return "(mkP1 %s %s %s %s %s %s %s %s)" % (N(p["seq"]), N(p["sp"]), N(p["sc"]), N(p["dp"]), N(p["dc"]), N(p["data"]), H(p["th"]), N(p["tt"]))

def enc_pay(y):
    return "(mkPay %s %s %s %s %s)" % tuple(N(v) for v in y)

def enc_p2(q):
    return "(mkP2 %s %s %s %s %s)" % (N(q["seq"]), N(q["src"]), N(q["dst"]), N(q["tt"]), lst(q["pay"], enc_pay))

KEYC = {"commit1": "KCommit1", "ack1": "KAck1", "receipt1": "KReceipt1", "nextrecv": "KNextRecv", "chan": "KChan",
        "commit2": "KCommit2", "ack2": "KAck2", "receipt2": "KReceipt2"}

def enc_proof(p):
    if p is not None and p["tag"] == "sentinel":
        return "PSentinel"
    if p is None or p["tag"] != "honest":
        return "PGarbage"
    k = p["key"]
    return "(PHonest %s (%s %s))" % (N(p["ver"]), KEYC[k[0]], " ".join(N(v) for v in k[1:]))

def enc_op(o):
    k = o["k"]
    if k == "empty":
        return "WEmpty"
    if k == "update":
        return "(WUpdateClient %s %s)" % (N(o["client"]), N(o["hh"]))
    if k == "freeze":
        return "(WFreeze %s)" % N(o["client"])
    pf = enc_proof(o.get("proof"))
    if k == "send1":
        op = "OSend1 %s %s %s %s %s" % (N(o["port"]), N(o["chan"]), H(o["th"]), N(o["tt"]), N(o["data"]))
    elif k == "recv1":
        op = "ORecv1 %s %s %s" % (enc_p1(o["p"]), H(o["ph"]), N(o["relayer"]))
    elif k == "ack1":
        op = "OAck1 %s %s %s %s" % (enc_p1(o["p"]), N(o["ack"]), H(o["ph"]), N(o["relayer"]))
    elif k == "timeout1":
        op = "OTimeout1 %s %s %s %s" % (enc_p1(o["p"]), H(o["ph"]), N(o["nsr"]), N(o["relayer"]))
    elif k == "timeoutclose1":
        op = "OTimeoutOnClose1 %s %s %s %s" % (enc_p1(o["p"]), H(o["ph"]), N(o["nsr"]), N(o["relayer"]))
    elif k == "asyncack1":
        op = "OAsyncAck1 %s %s" % (enc_p1(o["p"]), N(o["ack"]))
    elif k == "send2":
        op = "OSend2 %s %s %s %s" % (N(o["src"]), N(o["tt"]), lst(o["pay"], enc_pay), N(o["signer"]))
    elif k == "recv2":
        op = "ORecv2 %s %s %s" % (enc_p2(o["q"]), H(o["ph"]), N(o["relayer"]))
    elif k == "ack2":
        op = "OAck2 %s %s %s %s" % (enc_p2(o["q"]), lst(o["acks"], N), H(o["ph"]), N(o["relayer"]))
    elif k == "timeout2":
        op = "OTimeout2 %s %s %s" % (enc_p2(o["q"]), H(o["ph"]), N(o["relayer"]))
    elif k == "asyncack2":
        op = "OAsyncAck2 %s %s %s" % (N(o["id"]), N(o["seq"]), lst(o["acks"], N))
    elif k == "close":
        op = "OCloseChan %s %s" % (N(o["port"]), N(o["chan"]))
    else:
        raise ValueError("op kind " + k)
    if k == "timeoutclose1":
        return "(WPacketC (%s) %s %s)" % (op, pf, enc_proof(o.get("proof_closed")))
    return "(WPacket (%s) %s)" % (op, pf)

def enc_event(e):
    k = e[0]
    if k == "recv1":
        return "EvRecv1 %s %s %s" % (N(e[1]), N(e[2]), N(e[3]))
    if k == "ack1":
        return "EvAck1 %s %s %s %s" % (N(e[1]), N(e[2]), N(e[3]), N(e[4]))
    if k == "timeout1":
        return "EvTimeout1 %s %s %s" % (N(e[1]), N(e[2]), N(e[3]))
    if k == "recv2":
        return "EvRecv2 %s %s %s" % (N(e[1]), N(e[2]), N(e[3]))
    if k == "ack2":
        return "EvAck2 %s %s %s %s" % (N(e[1]), N(e[2]), N(e[3]), N(e[4]))
    if k == "timeout2":
        return "EvTimeout2 %s %s %s" % (N(e[1]), N(e[2]), N(e[3]))
    if k == "send2":
        return "EvSend2 %s %s %s" % (N(e[1]), N(e[2]), N(e[3]))
    raise ValueError("event " + str(e))

UNKNOWN = 999999999  # an interned id nothing uses: forces a mismatch when the store holds bytes the harness never built

def commit1_desc(d):
    if len(d) == 1:
        return "(%d, (0, 0), 0)" % UNKNOWN
    return "(%s, (%s, %s), %s)" % (N(d[0]), N(d[1][0]), N(d[1][1]), N(d[2]))

def commit2_desc(d):
    if len(d) == 1:
        return "(%d, 0, [])" % UNKNOWN
    return "(%s, %s, %s)" % (N(d[0]), N(d[1]), lst(d[2], enc_pay))

def probe_order(init_chain, maxseq):
    chans = [(c[0], c[1]) for c in init_chain["chans"]]
    ids = [c[1] for c in init_chain["chans"]] + [c[0] for c in init_chain["clients"]]
    return chans, ids

def enc_proj(pj, chans, ids, maxseq):
    ci = {k: i for i, k in enumerate(chans)}
    ii = {k: i for i, k in enumerate(ids)}
    big = 10 ** 9
    def okseq(s):
        return 0 <= int(s) <= maxseq
    def s2(x):  # sort key for (port, chan, ...) entries
        return (ci.get((x[0], x[1]), big),) + tuple(int(v) if isinstance(v, str) and v.isdigit() else 0 for v in x[2:3])
    def si(x):
        return (ii.get(x[0], big), int(x[1]) if len(x) > 1 and isinstance(x[1], str) and x[1].isdigit() else 0)
    bad = []  # entries outside the probe set: the model cannot reproduce them
    def chk2(x):
        if (x[0], x[1]) not in ci:
            bad.append(x)
    def chki(x):
        if x[0] not in ii:
            bad.append(x)
    for key in ("nr", "na", "ch"):
        for x in pj[key]:
            chk2(x)
    for key in ("c1", "r1", "a1"):
        for x in pj[key]:
            chk2(x)
            if not okseq(x[2]):
                bad.append(x)
    for x in pj["ns"]:
        chki(x)
    for key in ("c2", "r2", "a2", "as2"):
        for x in pj[key]:
            chki(x)
            if not okseq(x[1]):
                bad.append(x)
    def ackd(v):
        return N(UNKNOWN) if isinstance(v, str) and v.startswith("?") else N(v)
    def acks(v):
        return "[%s]" % N(UNKNOWN) if isinstance(v, str) else lst(v, N)
    app = int(pj["app"]) + (UNKNOWN if bad else 0)
    return "(mkProj %s %s %s %s %s %s %s %s %s %s %s %s)" % (
        lst(sorted(pj["ns"], key=lambda x: ii.get(x[0], big)), lambda x: "(%s, %s)" % (N(x[0]), N(x[1]))),
        lst(sorted(pj["nr"], key=s2), lambda x: "(%s, %s)" % (k2(x[0], x[1]), N(x[2]))),
        lst(sorted(pj["na"], key=s2), lambda x: "(%s, %s)" % (k2(x[0], x[1]), N(x[2]))),
        lst(sorted(pj["c1"], key=s2), lambda x: "(%s, %s)" % (k3(x[0], x[1], x[2]), commit1_desc(x[3]))),
        lst(sorted(pj["r1"], key=s2), lambda x: k3(x[0], x[1], x[2])),
        lst(sorted(pj["a1"], key=s2), lambda x: "(%s, %s)" % (k3(x[0], x[1], x[2]), ackd(x[3]))),
        lst(sorted(pj["c2"], key=si), lambda x: "(%s, %s)" % (ks(x[0], x[1]), commit2_desc(x[2]))),
        lst(sorted(pj["r2"], key=si), lambda x: ks(x[0], x[1])),
        lst(sorted(pj["a2"], key=si), lambda x: "(%s, %s)" % (ks(x[0], x[1]), acks(x[2]))),
        lst(sorted(pj["as2"], key=si), lambda x: ks(x[0], x[1])),
        lst(sorted(pj["ch"], key=s2), lambda x: "(%s, %s)" % (k2(x[0], x[1]), STATE[x[2]])),
        N(app))

def enc_hist(r):
    h = r["in"]
    init = h["init"]
    maxseq = int(h["maxseq"])
    sc = init["script"]
    script = "(script_of %s %s %s %s)" % (
        lst(sc, lambda x: "(%s, %s)" % (N(x[0]), N(x[1]))),
        lst(sc, lambda x: "(%s, %s)" % (N(x[0]), RECV[x[2]])),
        lst(sc, lambda x: "(%s, %s)" % (N(x[0]), N(x[3]))),
        lst([x for x in sc if x[4]], lambda x: N(x[0])))
    # non-canonical v1 ack bytes: flagged per op by the harness
    noncanon = sorted({s["op"]["ack"] for s in h["steps"] if s["op"].get("noncanon")})
    world = "(mkWorld %s %s %s (fun d => existsb (N.eqb d) %s) %s)" % (enc_chain(init["chains"][0]), enc_chain(init["chains"][1]), script, lst(noncanon, N), N(init.get("lh", 0)))
    # both chains have the same channel/client id sets in this family only up to naming: probe the union
    chans = []
    ids = []
    for c in init["chains"]:
        cs, is_ = probe_order(c, maxseq)
        for x in cs:
            if x not in chans:
                chans.append(x)
        for x in is_:
            if x not in ids:
                ids.append(x)
    probe = "(mkProbe %s %s %s)" % (lst(chans, lambda x: k2(x[0], x[1])), lst(ids, N), N(maxseq))
    steps = []
    for s in h["steps"]:
        steps.append("(mkStep %s %s %s %s %s %s %s)" % (
            "SA" if s["c"] == 0 else "SB", H(s["h"]), N(s["t"]), enc_op(s["op"]), OUT[s["out"]],
            lst(s["evs"], lambda e: "(" + enc_event(e) + ")"), enc_proj(s["proj"], chans, ids, maxseq)))
    return "mkCase %s %s [%s]" % (world, probe, ";\n    ".join(steps))

# ----------------------------------------------------------------------------------------- monitors
# Each monitor evaluates one property directly on what the implementation did in a history.

def _key1(e):
    return (e[1], e[2], int(e[3]))

def mon_hist(r, pid):
    """returns None or a violation description for property pid on this history"""
    h = r["in"]
    steps = h["steps"]
    ordered = {}
    for ci, c in enumerate(h["init"]["chains"]):
        for x in c["chans"]:
            ordered[(ci, x[0], x[1])] = (x[3] == "ORDER_ORDERED")
    counts = {}
    seqs_recv = {}
    seqs_ack = {}
    closed_at = {}
    prev_proj = {0: None, 1: None}
    term = {}
    ackhist = {}
    for i, s in enumerate(steps):
        ci = s["c"]
        op = s["op"]
        k = op["k"]
        pj = s["proj"]
        # C01: a relay of an already received packet must not reach the application, even in a reverted execution
        if pid == "C01" and prev_proj[ci] is not None:
            for e in s.get("att", []):
                if e[0] == "recv1" and any((x[0], x[1], x[2]) == (e[1], e[2], e[3]) for x in prev_proj[ci]["r1"]):
                    return "step %d: a replayed MsgRecvPacket reached OnRecvPacket for (%s,%s) sequence %s (receipt already stored; the message ended %s)" % (i, e[1], e[2], e[3], s["out"])
                if e[0] == "recv2" and any((x[0], x[1]) == (e[1], e[2]) for x in prev_proj[ci]["r2"]):
                    return "step %d: a replayed v2 MsgRecvPacket reached OnRecvPacket for %s sequence %s (receipt already stored; the message ended %s)" % (i, e[1], e[2], s["out"])
        # C01 / C02: on an ORDERED channel a packet that was already delivered must not reach the application again,
        # even inside a message that ends up reverted
        if pid in ("C01", "C02"):
            for e in s.get("att", []):
                if e[0] == "recv1" and ordered.get((ci, e[1], e[2])) and int(e[3]) in seqs_recv.get((ci, e[1], e[2]), []):
                    return "step %d: sequence %s of ORDERED channel (%s,%s) was handed to the application again (already delivered: %s; the message ended %s)" % (
                        i, e[3], e[1], e[2], seqs_recv[(ci, e[1], e[2])], s["out"])
        for e in s["evs"]:
            kind = e[0]
            if kind in ("recv1",):
                key = (ci, "recv1") + _key1(e)
                counts[key] = counts.get(key, 0) + 1
                if pid == "C01" and counts[key] > 1:
                    return "step %d: OnRecvPacket ran twice for destination (%s,%s) sequence %s" % (i, e[1], e[2], e[3])
                if pid == "C01" and prev_proj[ci] is not None and any((x[0], x[1], x[2]) == (e[1], e[2], e[3]) for x in prev_proj[ci]["r1"]):
                    return "step %d: OnRecvPacket ran for (%s,%s) sequence %s although its receipt was already stored" % (i, e[1], e[2], e[3])
                if ordered.get((ci, e[1], e[2])):
                    seqs_recv.setdefault((ci, e[1], e[2]), []).append(int(e[3]))
            elif kind == "recv2":
                key = (ci, "recv2", e[1], int(e[2]), int(e[3]))
                counts[key] = counts.get(key, 0) + 1
                if pid == "C01" and counts[key] > 1:
                    return "step %d: v2 OnRecvPacket ran twice for destination %s sequence %s payload %s" % (i, e[1], e[2], e[3])
                if pid == "C01" and prev_proj[ci] is not None and any((x[0], x[1]) == (e[1], e[2]) for x in prev_proj[ci]["r2"]):
                    return "step %d: v2 OnRecvPacket ran for %s sequence %s although its receipt was already stored" % (i, e[1], e[2])
            elif kind in ("ack1", "timeout1"):
                key = (ci, "term1") + _key1(e)
                term[key] = term.get(key, 0) + 1
                if pid == "C03" and term[key] > 1:
                    return "step %d: more than one terminal outcome (ack/timeout) for sent packet (%s,%s) sequence %s" % (i, e[1], e[2], e[3])
                if kind == "ack1" and ordered.get((ci, e[1], e[2])):
                    seqs_ack.setdefault((ci, e[1], e[2]), []).append(int(e[3]))
                if kind == "timeout1" and ordered.get((ci, e[1], e[2])):
                    closed_at.setdefault((ci, e[1], e[2]), i)
                    if pid == "C14":
                        st = [x[2] for x in pj["ch"] if (x[0], x[1]) == (e[1], e[2])]
                        if st != ["STATE_CLOSED"]:
                            return "step %d: ORDERED channel (%s,%s) not CLOSED after a timeout: %s" % (i, e[1], e[2], st)
            elif kind in ("ack2", "timeout2"):
                key = (ci, "term2", e[1], int(e[2]), int(e[3]))
                term[key] = term.get(key, 0) + 1
                if pid == "C03" and term[key] > 1:
                    return "step %d: more than one terminal outcome for v2 packet %s sequence %s payload %s" % (i, e[1], e[2], e[3])
        if pid == "C02":
            for key, l in seqs_recv.items():
                if l != list(range(1, len(l) + 1)):
                    return "step %d: ORDERED channel %s received sequences %s (must be 1,2,3,... without gaps)" % (i, key, l)
            for key, l in seqs_ack.items():
                if l != list(range(1, len(l) + 1)):
                    return "step %d: ORDERED channel %s processed acknowledgements %s (must be 1,2,3,... in order without gaps)" % (i, key, l)
        # NOOP / error leave the chain's packet store and application state unchanged
        if pid in ("C01", "C03", "C05", "C06", "C08") and s["out"] in ("noop", "err") and prev_proj[ci] is not None:
            if pj != prev_proj[ci]:
                return "step %d: %s with outcome %s changed state" % (i, k, s["out"])
        # after a terminal outcome the commitment is gone
        if pid == "C03" and s["out"] == "ok":
            if k in ("ack1", "timeout1", "timeoutclose1"):
                p = op["p"]
                if any((x[0], x[1], x[2]) == (p["sp"], p["sc"], p["seq"]) for x in pj["c1"]):
                    return "step %d: commitment still present after %s" % (i, k)
            if k in ("ack2", "timeout2"):
                q = op["q"]
                if any((x[0], x[1]) == (q["src"], q["seq"]) for x in pj["c2"]):
                    return "step %d: v2 commitment still present after %s" % (i, k)
        # C10: a receive that reached the applications (all core checks and the proof passed) and in which a payload
        # fails must end with the sentinel acknowledgement, not with a rejected message
        if pid == "C10" and k == "recv2" and s["out"] == "err" and s.get("att"):
            sc = dict((x[0], x) for x in h["init"]["script"])
            behs = [sc.get(y[4]) for y in op["q"]["pay"]]
            if all(bh is not None for bh in behs):
                kinds = [bh[2] for bh in behs]
                # (a payload answering with the sentinel bytes, an empty acknowledgement or asynchronously makes the
                # keeper reject the message by design as soon as it is reached: only plain successes may precede)
                if "error" in kinds and all(bh[2] == "success" and bh[3] != 0 for bh in behs[:kinds.index("error")]):
                    return "step %d: v2 receive with payload results %s reached the applications (%d callbacks ran) but was rejected instead of writing the single error acknowledgement" % (i, kinds, len(s["att"]))
        # C08: successful sends return consecutive sequences and write exactly one commitment
        if pid == "C08" and s["out"] == "ok" and k in ("send1", "send2") and prev_proj[ci] is not None:
            idk = op["chan"] if k == "send1" else op["src"]
            before = dict((x[0], int(x[1])) for x in prev_proj[ci]["ns"])
            after = dict((x[0], int(x[1])) for x in pj["ns"])
            if int(s.get("ret_seq", -1)) != before.get(idk) or after.get(idk) != before.get(idk) + 1:
                return "step %d: send on %s returned sequence %s, counter %s -> %s" % (i, idk, s.get("ret_seq"), before.get(idk), after.get(idk))
            nc1 = len(pj["c1"]) - len(prev_proj[ci]["c1"])
            nc2 = len(pj["c2"]) - len(prev_proj[ci]["c2"])
            if (nc1, nc2) != ((1, 0) if k == "send1" else (0, 1)):
                return "step %d: send wrote %d v1 and %d v2 commitments" % (i, nc1, nc2)
        # C09 / C10: error acknowledgement => application state unchanged, receipt and ack written
        if pid in ("C09", "C10") and s["out"] == "ok" and k in ("recv1", "recv2") and prev_proj[ci] is not None:
            sc = dict((x[0], x) for x in h["init"]["script"])
            if k == "recv1":
                beh = sc.get(op["p"]["data"])
                if beh is not None and pid == "C09":
                    delta = int(pj["app"]) - int(prev_proj[ci]["app"])
                    want = 0 if beh[2] == "error" else int(beh[1])
                    if delta != want:
                        return "step %d: receive with %s acknowledgement changed application state by %d (expected %d)" % (i, beh[2], delta, want)
                    if beh[2] == "error":
                        p = op["p"]
                        if not any((x[0], x[1], x[2]) == (p["dp"], p["dc"], p["seq"]) for x in pj["a1"]):
                            return "step %d: error acknowledgement not written" % i
            else:
                behs = [sc.get(y[4]) for y in op["q"]["pay"]]
                if all(bh is not None for bh in behs):
                    delta = int(pj["app"]) - int(prev_proj[ci]["app"])
                    fail = any(bh[2] == "error" for bh in behs)
                    # writes of payloads up to and including the failing one are discarded together
                    want = 0 if fail else sum(int(bh[1]) for bh in behs)
                    if delta != want:
                        return "step %d: v2 receive (%s) changed application state by %d (expected %d)" % (i, [bh[2] for bh in behs], delta, want)
                    q = op["q"]
                    a2 = [x for x in pj["a2"] if (x[0], x[1]) == (q["dst"], q["seq"])]
                    if fail and (not a2 or a2[0][2] != [1]):
                        return "step %d: failing v2 receive did not write exactly the sentinel acknowledgement: %s" % (i, a2)
                    if not fail and len(behs) > 1 and any(bh[2] == "async" for bh in behs):
                        return "step %d: v2 receive of a packet with %d payloads was accepted although a payload acknowledges asynchronously (%s)" % (
                            i, len(behs), [bh[2] for bh in behs])
                    if not fail and not any(bh[2] == "async" for bh in behs):
                        want_acks = [bh[3] for bh in behs]
                        if not a2 or a2[0][2] != want_acks:
                            return "step %d: v2 acknowledgement %s is not one app acknowledgement per payload in order %s" % (i, a2, want_acks)
        # C11: an asynchronously acknowledged v2 packet stays retrievable until its acknowledgement is written, and is
        # removed afterwards
        if pid == "C11" and prev_proj[ci] is not None:
            prev_as = {(x[0], x[1]) for x in prev_proj[ci]["as2"]}
            now_as = {(x[0], x[1]) for x in pj["as2"]}
            acked2 = {(x[0], x[1]) for x in pj["a2"]}
            gone = sorted(prev_as - now_as - acked2)
            if gone:
                return "step %d: the stored asynchronous packet %s was removed although its acknowledgement has not been written" % (i, gone[0])
            kept = sorted(now_as & acked2)
            if kept:
                return "step %d: the asynchronous packet %s is still stored after its acknowledgement was written" % (i, kept[0])
        # C11: acknowledgements never change or disappear
        if pid == "C11":
            for x in pj["a1"]:
                key = (ci, 1, x[0], x[1], x[2])
                if key in ackhist and ackhist[key] != x[3]:
                    return "step %d: v1 acknowledgement for %s changed" % (i, key)
                ackhist[key] = x[3]
            for x in pj["a2"]:
                key = (ci, 2, x[0], x[1])
                if key in ackhist and ackhist[key] != x[2]:
                    return "step %d: v2 acknowledgement for %s changed" % (i, key)
                ackhist[key] = x[2]
                if not any((y[0], y[1]) == (x[0], x[1]) for y in pj["r2"]):
                    return "step %d: v2 acknowledgement without receipt for %s" % (i, key)
            present = {(ci, 1, x[0], x[1], x[2]) for x in pj["a1"]} | {(ci, 2, x[0], x[1]) for x in pj["a2"]}
            for key in ackhist:
                if key[0] == ci and key not in present:
                    return "step %d: acknowledgement for %s was removed" % (i, key)
        # C14: after an ORDERED timeout no send/recv/ack succeeds on that end
        if pid == "C14" and s["out"] == "ok":
            tgt = None
            if k == "send1":
                tgt = (ci, op["port"], op["chan"])
            elif k in ("recv1", "asyncack1"):
                tgt = (ci, op["p"]["dp"], op["p"]["dc"])
            elif k == "ack1":
                tgt = (ci, op["p"]["sp"], op["p"]["sc"])
            if tgt in closed_at and closed_at[tgt] < i:
                return "step %d: %s succeeded on ORDERED channel %s closed by a timeout at step %d" % (i, k, tgt, closed_at[tgt])
        prev_proj[ci] = pj
    # loopback channels (both ends on the same chain, connection-localhost)
    ids = h.get("ids", [])
    lh_conn = (ids.index("connection-localhost") + 1) if "connection-localhost" in ids else None
    loop = set()
    for ci, c in enumerate(h["init"]["chains"]):
        for x in c["chans"]:
            if x[6] == lh_conn:
                loop.add((ci, x[0], x[1]))
    def sender_of(ci, port, chan):      # chain that sent a packet received on (ci, port, chan)
        return ci if (ci, port, chan) in loop else 1 - ci
    def dest_of(ci, port, chan):        # chain that receives a packet sent from (ci, port, chan)
        return ci if (ci, port, chan) in loop else 1 - ci
    # cross-chain: C04 (timed out => never received), C05/C06 evidence
    if pid == "C04":
        recvd = set()
        timed = {}
        for i, s in enumerate(steps):
            for e in s["evs"]:
                if e[0] == "recv1":
                    recvd.add(("1", sender_of(s["c"], e[1], e[2]), e[1], e[2], int(e[3])))
                if e[0] == "recv2":
                    recvd.add(("2", 1 - s["c"], e[1], int(e[2])))
            if s["out"] == "ok" and s["op"]["k"] in ("timeout1", "timeoutclose1"):
                p = s["op"]["p"]
                timed[("1", s["c"], p["dp"], p["dc"], int(p["seq"]))] = i
            if s["out"] == "ok" and s["op"]["k"] == "timeout2":
                q = s["op"]["q"]
                timed[("2", s["c"], q["dst"], int(q["seq"]))] = i
        both = set(timed) & recvd
        if both:
            x = sorted(both)[0]
            return "packet %s was both received on the destination and timed out on the source (timeout at step %d)" % (x, timed[x])
        # never early: at the moment a timeout is accepted the destination must have reached the timeout
        last = {0: None, 1: None}
        for i, s in enumerate(steps):
            if s["out"] == "ok" and s["op"]["k"] in ("timeout1",):
                p = s["op"]["p"]
                dchain = dest_of(s["c"], p["sp"], p["sc"])
                d = (s["h"], s["t"]) if dchain == s["c"] else last[dchain]
                if d is not None:
                    dh, dt = (int(d[0][0]), int(d[0][1])), int(d[1])
                    th = (int(p["th"][0]), int(p["th"][1])); tt = int(p["tt"])
                    if not ((th != (0, 0) and dh >= th) or (tt != 0 and dt >= tt)):
                        return "step %d: v1 timeout accepted although the destination (height %s, time %d) had not reached timeout (%s, %d)" % (i, dh, dt, th, tt)
            if s["out"] == "ok" and s["op"]["k"] == "timeout2":
                q = s["op"]["q"]
                d = last[1 - s["c"]]
                if d is not None and int(d[1]) // 10 ** 9 < int(q["tt"]):
                    return "step %d: v2 timeout accepted although the destination time %d s is before the timeout %s s" % (i, int(d[1]) // 10 ** 9, q["tt"])
            last[s["c"]] = (s["h"], s["t"])
    if pid in ("C05", "C06"):
        # successful receive/ack only of packets the counterparty really committed / acknowledged
        sent1 = {}
        sent2 = {}
        acked = {}
        for i, s in enumerate(steps):
            op = s["op"]; k = op["k"]
            if s["out"] == "ok" and k == "send1":
                sent1[(s["c"], op["port"], op["chan"], int(s["ret_seq"]))] = (op["data"], op["th"], op["tt"])
            if s["out"] == "ok" and k == "send2":
                sent2[(s["c"], op["src"], int(s["ret_seq"]))] = (op["tt"], op["pay"])
            # unexpired: the receiving block's own height and time are strictly before the packet's timeout
            if pid == "C05" and s["out"] == "ok" and k == "recv1":
                p = op["p"]
                hh = (int(s["h"][0]), int(s["h"][1])); th = (int(p["th"][0]), int(p["th"][1])); tt = int(p["tt"])
                if (th != (0, 0) and hh >= th) or (tt != 0 and int(s["t"]) >= tt):
                    return "step %d: v1 packet received at height %s time %s although its timeout (%s, %d) had been reached" % (i, hh, s["t"], th, tt)
            if pid == "C05" and s["out"] == "ok" and k == "recv2":
                q = op["q"]
                if int(s["t"]) // 10 ** 9 >= int(q["tt"]):
                    return "step %d: v2 packet received at block time %d s although its timeout is %s s" % (i, int(s["t"]) // 10 ** 9, q["tt"])
            if pid == "C05" and s["out"] == "ok" and k == "recv1":
                p = op["p"]
                if sent1.get((sender_of(s["c"], p["dp"], p["dc"]), p["sp"], p["sc"], int(p["seq"]))) != (p["data"], p["th"], p["tt"]):
                    return "step %d: received a v1 packet the counterparty never sent with these fields: %s" % (i, p)
            if pid == "C05" and s["out"] == "ok" and k == "recv2":
                q = op["q"]
                if sent2.get((1 - s["c"], q["src"], int(q["seq"]))) != (q["tt"], q["pay"]):
                    return "step %d: received a v2 packet the counterparty never sent with these fields: %s" % (i, q)
            if pid == "C06" and s["out"] == "ok" and k == "ack1":
                p = op["p"]
                if sent1.get((s["c"], p["sp"], p["sc"], int(p["seq"]))) != (p["data"], p["th"], p["tt"]):
                    return "step %d: acknowledged a packet that was not sent with these fields" % i
                a = [x for st in steps[:i] if st["c"] == dest_of(s["c"], p["sp"], p["sc"]) for x in st["proj"]["a1"] if (x[0], x[1], x[2]) == (p["dp"], p["dc"], p["seq"])]
                if not a or a[-1][3] != op["ack"]:
                    return "step %d: processed acknowledgement %s but the counterparty wrote %s" % (i, op["ack"], a[-1:] )
            if pid == "C06" and s["out"] == "ok" and k == "ack2":
                q = op["q"]
                if sent2.get((s["c"], q["src"], int(q["seq"]))) != (q["tt"], q["pay"]):
                    return "step %d: acknowledged a v2 packet that was not sent with these fields" % i
                a = [x for st in steps[:i] if st["c"] == 1 - s["c"] for x in st["proj"]["a2"] if (x[0], x[1]) == (q["dst"], q["seq"])]
                if not a or a[-1][2] != op["acks"]:
                    return "step %d: processed v2 acknowledgement %s but the counterparty wrote %s" % (i, op["acks"], a[-1:])
    return None

def nontrivial(r):
    return sum(1 for s in r["in"]["steps"] if s["out"] == "ok" and s["op"]["k"] not in ("empty", "update")) >= 5

def enc_fhist(r):
    return "FHist (" + enc_hist(r) + ")"


def enc_send2guard(r):
    i = r["in"]
    return "FSendGuard %s %s %s %s" % (N(i["bt"]), N(i["tt"]), N(i["lts"]), "true" if r["out"]["accepted"] else "false")


def spec_send2guard(r):
    """C08, v2 send-time guards, evaluated independently of the model: accepted iff the timeout (s) is after the block
    time, at most 24 h after it, and after the latest consensus timestamp of the light client (s)"""
    i = r["in"]
    bt, tt, lts = int(i["bt"]), int(i["tt"]), int(i["lts"])
    if r["out"]["panic"]:
        return "v2 SendPacket panicked for block time %d, timeout %d s" % (bt, tt)
    want = tt * 10 ** 9 > bt and tt * 10 ** 9 <= bt + 86400 * 10 ** 9 and tt > lts // 10 ** 9 and 0 < tt < 2 ** 63
    if r["out"]["accepted"] != want:
        return "v2 send with timeout %d s at block time %d ns, client's latest consensus timestamp %d ns: accepted=%s, the send-time guards give %s" % (
            tt, bt, lts, r["out"]["accepted"], want)


KINDS = {
    "hist": dict(props=PROPS, enc=enc_fhist, spec=mon_hist, spec_takes_pid=True, exact=False, nontrivial=nontrivial),
    "send2guard": dict(props=["C08"], enc=enc_send2guard, spec=spec_send2guard, exact=True),
}

KNOWN = {}
SHARD = 3
