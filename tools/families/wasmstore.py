"""`wasmstore` family (C29): histories on the 08-wasm ClientRecoveryStore (second harness module)."""
from lib.coqgen import N, b, hx, opt, lst

NAME = "wasmstore"
GO_MODULE_DIR = "harness-wasm"
GO_SUM_FROM = "modules/light-clients/08-wasm/go.sum"
GO_PKG = "./wasmstore"
COQ_IMPORTS = "From IBC Require Import Lib.Bytes Lib.CorrLib Clients.WasmStore Corr.WasmStore."
CASE_TYPE = "Case"
CHECK = "check"

SUBJECT = b"subject/"
SUBSTITUTE = b"substitute/"


def key(k):
    """nil and empty keys are the same to SplitPrefix (see Clients/WasmStore.v)"""
    return hx(k or "")


def kvl(d):
    return lst(d, lambda p: "(%s, %s)" % (hx(p[0] or ""), hx(p[1] or "")))


def enc_op(o):
    t = o["op"]
    if t == "get":
        return "OGet %s" % key(o.get("k"))
    if t == "has":
        return "OHas %s" % key(o.get("k"))
    if t == "set":
        return "OSet %s %s" % (key(o.get("k")), opt(o.get("v"), hx))
    if t == "delete":
        return "ODel %s" % key(o.get("k"))
    if t == "iter":
        return "OIter %s %s" % (key(o.get("s")), key(o.get("e")))
    if t == "riter":
        return "ORIter %s %s" % (key(o.get("s")), key(o.get("e")))
    raise ValueError(t)


def enc_res(ob):
    r = ob["r"]
    if r == "ok":
        return "RUnit"
    if r == "panic":
        return "RPanic"
    if r == "get":
        return "RGet %s" % opt(ob.get("v"), hx)
    if r == "has":
        return "RHas %s" % b(ob.get("b", False))
    if r == "iter":
        for p in ob.get("kv") or []:
            if p[0] is None or p[1] is None:
                raise ValueError("iterator returned a nil key or value")
        return "RIter %s" % kvl(ob.get("kv") or [])
    raise ValueError(r)


def enc_history(r):
    i = r["in"]
    ops = lst(i["ops"], lambda o: "(" + enc_op(o) + ")")
    obs = lst(r["out"], lambda ob: "(%s, %s, %s)" % (enc_res(ob), kvl(ob["subj"]), kvl(ob["subst"])))
    return "History %s %s %s %s" % (kvl(i["subj"]), kvl(i["subst"]), ops, obs)


# ---- monitors (independent of the model: the property text evaluated on the dumps) -------------

def _split(k):
    """the prefix class the property talks about"""
    if k is None:
        k = b""
    if k.startswith(SUBJECT):
        return "subject", k[len(SUBJECT):]
    if k.startswith(SUBSTITUTE):
        return "substitute", k[len(SUBSTITUTE):]
    return None, k


def _bz(x):
    return None if x is None else bytes.fromhex(x)


def _d(dump):
    return [(bytes.fromhex(k), bytes.fromhex(v)) for k, v in dump]


def violations(r):
    """list of (op index, text, closed_iterator_shape) for one history"""
    i = r["in"]
    out = []
    subj = _d(i["subj"]); subst0 = _d(i["subst"]); rest0 = i["rest"]
    for n, (op, ob) in enumerate(zip(i["ops"], r["out"])):
        t = op["op"]
        after = _d(ob["subj"])
        if _d(ob["subst"]) != subst0:
            out.append((n, "substitute store changed by %s %s" % (t, op), False))
        if ob["rest"] != rest0:
            out.append((n, "keys outside both client stores changed by %s %s" % (t, op), False))
        before = dict(subj)
        want = dict(before)
        if t in ("set", "delete"):
            p, k = _split(_bz(op.get("k")))
            if p == "subject" and ob["r"] != "panic":
                if t == "set":
                    want[k] = _bz(op.get("v")) or b""
                else:
                    want.pop(k, None)
            if dict(after) != want or sorted(after) != after:
                out.append((n, "%s of key %r: subject store is %r, required %r (writes reach the subject store iff the key carries the subject/ prefix, stripped)" % (t, _bz(op.get("k")), after, sorted(want.items())), False))
            if ob["r"] == "panic" and not (p == "subject" and (k == b"" or (t == "set" and op.get("v") is None))):
                out.append((n, "%s of key %r panicked" % (t, _bz(op.get("k"))), False))
        else:
            if after != subj:
                out.append((n, "read operation %s changed the subject store" % t, False))
            if t in ("get", "has"):
                p, k = _split(_bz(op.get("k")))
                src = before if p == "subject" else dict(subst0) if p == "substitute" else {}
                if ob["r"] == "panic":
                    out.append((n, "%s of key %r panicked" % (t, _bz(op.get("k"))), False))
                elif t == "get":
                    got = _bz(ob.get("v"))
                    if got != src.get(k):
                        out.append((n, "Get(%r) = %r, the %s store holds %r" % (_bz(op.get("k")), got, p or "no", src.get(k)), False))
                else:
                    if bool(ob.get("b")) != (k in src):
                        out.append((n, "Has(%r) = %r, the %s store %s the key" % (_bz(op.get("k")), ob.get("b"), p or "no", "holds" if k in src else "lacks"), False))
            else:
                ps, s = _split(_bz(op.get("s")))
                pe, e = _split(_bz(op.get("e")))
                got = None if ob["r"] == "panic" else [(_bz(x[0]), _bz(x[1])) for x in (ob.get("kv") or [])]
                if ps is not None and ps == pe:
                    src = subj if ps == "subject" else subst0
                    wantl = [(k, v) for (k, v) in src if s <= k < e]
                    if t == "riter":
                        wantl.reverse()
                    if got != wantl:
                        out.append((n, "%s[%r,%r) returned %r, the %s store holds %r in that range" % (t, _bz(op.get("s")), _bz(op.get("e")), got, ps, wantl), False))
                elif got != []:
                    out.append((n, "%s over the range [%r,%r), which does not carry one consistent prefix, read %s instead of empty" %
                                (t, _bz(op.get("s")), _bz(op.get("e")), "a panic" if got is None else repr(got)), True))
        subj = after
    return out


def spec_history(r):
    v = violations(r)
    if v:
        return "op %d: %s" % (v[0][0], v[0][1])


def nontrivial(r):
    return len(r["in"]["ops"]) > 0


KINDS = {
    "recovery_store": dict(props=["C29"], enc=enc_history, spec=spec_history, exact=True, nontrivial=nontrivial),
}

KNOWN = {}   # F7 (closedIterator on cachekv parents) is fixed in /repo (commit 71f1b5a); its witness is the corpus-F7 records
