"""`pfmrl` family: rate-limit histories (C41) and packet-forward routes (C43) on real simapp chains."""
import hashlib
from lib.coqgen import N, Z, b, hx, opt, lst

NAME = "pfmrl"
GO_PKG = "./pfmrl"
COQ_IMPORTS = "From IBC Require Import Lib.Bytes Lib.CorrLib PfmRl.RateLimit PfmRl.Pfm Corr.PfmRl."
CASE_TYPE = "Case"
CHECK = "check"

# ================================================================================================ C41

def ZZ(x):
    """Z literal in an argument position whose type is Z (the argument scope applies)"""
    x = int(x)
    return "(%d)" % x if x < 0 else "%d" % x


class Ids:
    """per-history numbering of strings (denoms, channels, addresses)"""
    def __init__(self):
        self.m = {}
    def __call__(self, s):
        if s not in self.m:
            self.m[s] = len(self.m) + 1
        return self.m[s]


def _parse_pending(s):
    """{channel}/{sequence}/{denom}; the denom may contain '/'"""
    ch, seq, denom = s.split("/", 2)
    return (denom, ch, int(seq))


def _rl_ops(rec):
    return rec["in"]["ops"]


def enc_rl_hist(rec):
    ids = Ids()
    inp = rec["in"]
    def path(p):
        return "(P %d %d)" % (ids("d:" + p[0]), ids("c:" + p[1]))
    def pk(x):
        return "(mkPkt %s %s %s %d %d)" % (path((x["denom"], x["chan"])), N(x["seq"]), ZZ(x["amt"]), ids("a:" + x["from"]), ids("a:" + x["to"]))
    def quota(q):
        return "(mkQ %s %s %s)" % (ZZ(q[0]), ZZ(q[1]), N(q[2]))
    univ = set()
    def note(x):
        univ.add((x["denom"], x["chan"], int(x["seq"])))
    terms = []
    for op, ob in zip(inp["ops"], rec["out"]):
        k = op["op"]
        for f in ("pk", "pk2"):
            if f in op:
                note(op[f])
        if k == "block":
            t = "OBeginBlock %s %s" % (ZZ(op["t"]), lst(op["sup"], lambda x: "SV %d %s" % (ids("d:" + x[0]), ZZ(x[1]))))
        elif k == "send":
            t = "OSend %s %s" % (pk(op["pk"]), b(op["env_ok"]))
        elif k == "recv":
            t = "ORecv %s %s" % (pk(op["pk"]), {"ok": "AppOk", "err": "AppErr", "async": "AppAsync"}[op["app"]])
        elif k == "recvfwd":
            t = "ORecvFwd %s %s %s" % (pk(op["pk"]), pk(op["pk2"]), b(op["env_ok"]))
        elif k == "timeoutretry":
            t = "OTimeoutRetry %s %s %s" % (pk(op["pk"]), pk(op["pk2"]), b(op["env_ok"]))
        elif k == "writeack":
            t = "OWriteAck %s %s" % (pk(op["pk"]), b(op["success"]))
        elif k == "ack":
            t = "OAck %s %s" % (pk(op["pk"]), b(op["success"]))
        elif k == "timeout":
            t = "OTimeout %s" % pk(op["pk"])
        elif k == "add":
            t = "OAdd %s %s %s %s %s" % (path(op["path"]), quota(op["q"]), ZZ(op["cv"]), b(op["chan_exists"]), b(op["auth"]))
        elif k == "update":
            t = "OUpdate %s %s %s %s" % (path(op["path"]), quota(op["q"]), ZZ(op["cv"]), b(op["auth"]))
        elif k == "remove":
            t = "ORemove %s %s" % (path(op["path"]), b(op["auth"]))
        elif k == "reset":
            t = "OReset %s %s %s" % (path(op["path"]), ZZ(op["cv"]), b(op["auth"]))
        elif k == "blacklist":
            t = "OBlacklist %d %s" % (ids("d:" + op["denom"]), b(op["v"]))
        elif k == "whitelist":
            t = "OWhitelist %d %d %s" % (ids("a:" + op["a"]), ids("a:" + op["b"]), b(op["v"]))
        else:
            raise ValueError("unknown op " + k)
        if ob is not None:
            for s in ob["ps"] + ob["pr"]:
                univ.add(_parse_pending(s))
        terms.append((t, ob))
    def pn(x):
        return "PN %d %d %d" % (ids("d:" + x[0]), ids("c:" + x[1]), x[2])
    def obs(ob):
        if ob is None:
            return "NoOb"
        lims = lst(ob["lims"], lambda l: "NL" if l is None else "LO %s %s %s %s %s %s" % (ZZ(l[0]), ZZ(l[1]), N(l[2]), ZZ(l[3]), ZZ(l[4]), ZZ(l[5])))
        return "(OB %d %s %s %s %s %s)" % (ob["cls"], lims, lst([_parse_pending(s) for s in ob["ps"]], pn),
                                          lst([_parse_pending(s) for s in ob["pr"]], pn), N(ob["epn"]), ZZ(ob["eps"]))
    init = inp["init"]
    ops = "[" + ";\n    ".join("X (%s) %s" % (t, obs(ob)) for t, ob in terms) + "]"
    return "RlHist %s %s %s %s %s\n    %s" % (N(init["epn"]), ZZ(init["eps"]), ZZ(init.get("epd", 3600 * 10**9)),
                                              lst(inp["paths"], path), lst(sorted(univ), pn), ops)


def _quot(a, b_):
    """sdkmath.Int.Quo: truncation toward zero"""
    q = abs(a) // abs(b_)
    return q if (a >= 0) == (b_ >= 0) else -q


class _Lim:
    def __init__(self, qs, qr, hours, cv):
        self.qs, self.qr, self.hours, self.cv = qs, qr, hours, cv
        self.acc = {"in": 0, "out": 0}       # amounts accepted in the current window
        self.undone = {"in": 0, "out": 0}    # amounts of those later refunded in it
        self.live = {"in": {}, "out": {}}    # packets accepted in the current window and not finalised
    def flow(self, d):
        return self.acc[d] - self.undone[d]
    def exceeds(self, d, amt):
        if self.cv == 0:
            return False
        other = "out" if d == "in" else "in"
        net = self.flow(d) - self.flow(other) + amt
        pct = self.qr if d == "in" else self.qs
        return net > _quot(self.cv * pct, 100)


def spec_rl_hist(rec):
    """C41 evaluated directly on the implementation's record: a ghost log of (packet, direction, amount) per
    window is folded from the recorded operations and outcomes; the recorded flows must equal
    accepted-in-window minus undone-in-window, acceptance must follow the quota formula, and a receive
    answered by an error acknowledgement must leave everything unchanged."""
    inp = rec["in"]
    init = inp["init"]
    paths = [tuple(p) for p in inp["paths"]]
    epn, eps, epd = int(init["epn"]), int(init["eps"]), int(init.get("epd", 3600 * 10**9))
    lim, black, white = {}, set(), set()
    prev = init
    undone_once = set()
    epoch_since_prev = False

    def try_accept(d, x, commit):
        """returns True when the rate limiter lets the packet through; commit applies the ghost accept"""
        p = (x["denom"], x["chan"])
        if x["denom"] in black:
            return False
        l = lim.get(p)
        if l is None or (x["from"], x["to"]) in white:
            return True
        amt = int(x["amt"])
        if l.exceeds(d, amt):
            return False
        if commit:
            l.acc[d] += amt
            l.live[d][int(x["seq"])] = amt
        return True

    def refund(d, x, i):
        p = (x["denom"], x["chan"])
        l = lim.get(p)
        if l is None:
            return None
        seq = int(x["seq"])
        if seq in l.live[d]:
            key = (d, p, seq, id(l))
            if key in undone_once:
                return "op %d: packet %s/%d undone twice in one window" % (i, p, seq)
            undone_once.add(key)
            l.undone[d] += l.live[d].pop(seq)
        return None

    def finalise(d, x):
        l = lim.get((x["denom"], x["chan"]))
        if l is not None:
            l.live[d].pop(int(x["seq"]), None)

    for i, (op, ob) in enumerate(zip(inp["ops"], rec["out"])):
        k = op["op"]
        cls = None if ob is None else ob["cls"]
        want = None
        if k == "block":
            if epd != 0 and int(op["t"]) > eps + epd:
                epn += 1
                eps += epd
                epoch_since_prev = True
                sup = dict((d, int(v)) for d, v in op["sup"])
                for p, l in list(lim.items()):
                    if l.hours != 0 and epn % l.hours == 0:
                        lim[p] = _Lim(l.qs, l.qr, l.hours, sup.get(p[0], 0))
        elif k == "send":
            ok = try_accept("out", op["pk"], False) and op["env_ok"]
            want = 0 if ok else 1
            if cls == 0:
                try_accept("out", op["pk"], True)
        elif k == "recv":
            ok = try_accept("in", op["pk"], False)
            want = 1 if (not ok or op["app"] == "err") else (2 if op["app"] == "async" else 0)
            if cls in (0, 2):
                try_accept("in", op["pk"], True)
        elif k == "recvfwd":
            ok = try_accept("in", op["pk"], False)
            if ok and cls == 2:
                try_accept("in", op["pk"], True)
                ok2 = try_accept("out", op["pk2"], True)
                want = 2 if (ok2 and op["env_ok"]) else 1
            elif ok:
                # observed denial: legal only if the forward's own send is over quota (checked after the inflow is added)
                import copy
                saved = copy.deepcopy(lim)
                try_accept("in", op["pk"], True)
                ok2 = try_accept("out", op["pk2"], False)
                lim.clear(); lim.update(saved)
                want = 2 if (ok2 and op["env_ok"]) else 1
            else:
                want = 1
        elif k == "timeoutretry":
            if cls == 0:
                why = refund("out", op["pk"], i)
                if why:
                    return why
                if not try_accept("out", op["pk2"], True):
                    return "op %d: retried forward accepted although it exceeds the quota" % i
            want = cls
        elif k == "ack":
            if op["success"]:
                finalise("out", op["pk"])
            else:
                why = refund("out", op["pk"], i)
                if why:
                    return why
        elif k == "timeout":
            why = refund("out", op["pk"], i)
            if why:
                return why
        elif k == "writeack":
            if op["success"]:
                finalise("in", op["pk"])
            else:
                why = refund("in", op["pk"], i)
                if why:
                    return why
        elif k in ("add", "update", "reset", "remove"):
            p = tuple(op["path"])
            if cls == 0:
                if k == "remove":
                    lim.pop(p, None)
                elif k == "reset":
                    l = lim.get(p)
                    if l is None:
                        return "op %d: reset of a missing rate limit succeeded" % i
                    lim[p] = _Lim(l.qs, l.qr, l.hours, int(op["cv"]))
                else:
                    q = op["q"]
                    lim[p] = _Lim(int(q[0]), int(q[1]), int(q[2]), int(op["cv"]))
        elif k == "blacklist":
            (black.add if op["v"] else black.discard)(op["denom"])
        elif k == "whitelist":
            (white.add if op["v"] else white.discard)((op["a"], op["b"]))
        if ob is None:
            continue
        if want is not None and cls != want:
            return "op %d (%s): outcome class %s, the quota rule requires %s (packet %s)" % (i, k, cls, want, op.get("pk"))
        if k in ("recv", "recvfwd") and cls == 1 and not epoch_since_prev:
            if (ob["lims"], ob["ps"], ob["pr"]) != (prev["lims"], prev["ps"], prev["pr"]):
                return "op %d: a receive answered by an error acknowledgement changed the rate-limit state" % i
        for p, o in zip(paths, ob["lims"]):
            l = lim.get(p)
            if (l is None) != (o is None):
                return "op %d: rate limit %s present=%s, history requires present=%s" % (i, p, o is not None, l is not None)
            if l is None:
                continue
            got = (int(o[3]), int(o[4]))
            need = (l.flow("in"), l.flow("out"))
            if got != need:
                return ("op %d (%s): recorded (inflow, outflow) of %s = %s; accepted in the current window minus undone in it = %s"
                        % (i, k, p, got, need))
            if got[0] < 0 or got[1] < 0:
                return "op %d: negative flow %s" % (i, got)
            if int(o[5]) != l.cv:
                return "op %d: channel value of %s is %s, the supply at window start was %s" % (i, p, o[5], l.cv)
        prev = ob
        epoch_since_prev = False
    return None


def nontrivial_rl(rec):
    return sum(1 for o in rec["in"]["ops"] if o["op"] != "block") >= 5


# ================================================================================================ C43

def _chnum(ch):
    return int(ch.split("-")[1])


class _PfmCtx:
    """identifier tables of one pfm_hist record"""
    def __init__(self, rec):
        inp = rec["in"]
        self.n = inp["n"]
        self.labels = inp["labels"]
        self.users = {}
        chans = set()
        for (i, a, j, bb) in inp["chans"]:
            chans.add(a); chans.add(bb)
        chans.add("channel-99")
        self.chans = sorted(chans)
        self.by_hash = None

    def denom(self, s):
        """coin denom string -> (trace as list of channel numbers, base id)"""
        if s == "stake":
            return ((), 1)
        if self.by_hash is None:
            self.by_hash = {}
            traces = [()]
            for _ in range(self.n + 1):
                traces = [t + (c,) for t in traces for c in self.chans]
                for t in traces:
                    path = "/".join("transfer/" + c for c in t) + "/stake"
                    self.by_hash["ibc/" + hashlib.sha256(path.encode()).hexdigest().upper()] = t
        t = self.by_hash.get(s)
        if t is None:
            raise ValueError("denomination %s is not a trace over the channels of this world" % s)
        return (tuple(_chnum(c) for c in t), 1)

    def denom_t(self, s):
        t, base = self.denom(s)
        return "(mkD %s %d)" % (lst(t, lambda x: "%d" % x), base)

    def acct(self, addr):
        lab = self.labels.get(addr)
        if lab is None:
            return None
        if lab[0] == "user":
            if addr not in self.users:
                self.users[addr] = len(self.users) + 1
            return "(AUser %d)" % self.users[addr]
        if lab[0] == "escrow":
            return "(AEscrow %d)" % _chnum(lab[1])
        inner = self.acct(lab[2])
        if inner is None:
            raise ValueError("override account of an unknown sender " + lab[2])
        return "(AOverride %d %s)" % (_chnum(lab[1]), inner)

    def oacct(self, addr):
        t = self.acct(addr)
        return "NA" if t is None else "(SA %s)" % t

    def memo(self, m):
        if m is None:
            return "MNone"
        return "(MFwd %s %d %d %s)" % (self.oacct(m["recv"]), _chnum(m["chan"]), m["retries"], self.memo(m["next"]))


def _keep(d):
    return d == "stake" or d.startswith("ibc/")


def _clean(ob):
    """drop denominations that no route ever moves (extra genesis coins of the test chains)"""
    return [dict(bal=[e for e in co["bal"] or [] if _keep(e[1])], sup=[e for e in co["sup"] or [] if _keep(e[0])],
                 esc=[e for e in co["esc"] or [] if _keep(e[0])], infl=co["infl"] or []) for co in ob]


def _cleaned(rec):
    inp = dict(rec["in"])
    inp["init"] = _clean(inp["init"])
    return dict(rec, **{"in": inp, "out": [_clean(ob) for ob in rec["out"]]})


def enc_pfm_hist(rec):
    rec = _cleaned(rec)
    inp = rec["in"]
    cx = _PfmCtx(rec)
    n = inp["n"]
    peers = []
    chans_of = {i: [] for i in range(n)}
    for (i, a, j, bb) in inp["chans"]:
        peers.append("PR %d %d %d %d" % (i, _chnum(a), j, _chnum(bb)))
        peers.append("PR %d %d %d %d" % (j, _chnum(bb), i, _chnum(a)))
        chans_of[i].append(_chnum(a)); chans_of[j].append(_chnum(bb))
    all_obs = [inp["init"]] + list(rec["out"])
    # universe per chain: tracked accounts, denominations seen in any observation
    accts = {i: set() for i in range(n)}
    denoms = {i: set(["stake"]) for i in range(n)}
    for ob in all_obs:
        for i, co in enumerate(ob):
            for (a, d, x) in co["bal"] or []:
                accts[i].add(a); denoms[i].add(d)
            for (d, x) in (co["sup"] or []) + (co["esc"] or []):
                denoms[i].add(d)
    # every labelled account is tracked on the chain(s) where it was observed; add accounts with no balance yet
    for addr, lab in inp["labels"].items():
        pass
    def chain_obs(co):
        return "(mkCO %s %s %s %s)" % (
            lst(co["bal"] or [], lambda e: "BL %s %s %s" % (cx.acct(e[0]), cx.denom_t(e[1]), ZZ(e[2]))),
            lst(co["sup"] or [], lambda e: "DZ %s %s" % (cx.denom_t(e[0]), ZZ(e[1]))),
            lst(co["esc"] or [], lambda e: "DZ %s %s" % (cx.denom_t(e[0]), ZZ(e[1]))),
            lst(co["infl"] or [], lambda k: "KY %d %s" % (_chnum(k.split("/")[0]), k.split("/")[2])))
    routes = []
    for rr, ob in zip(inp["routes"], rec["out"]):
        r = rr["route"]
        ops = ["RTransfer %d %s %d %s %s %s %s" % (r["chain"], cx.acct(r["sender"]), _chnum(r["chan"]), cx.denom_t(r["denom"]),
                                                  ZZ(r["amt"]), cx.oacct(r["recv"]), cx.memo(r["memo"]))]
        for (k, c, ch, seq) in rr["ops"]:
            ops.append("%s %d %d %s" % ({"recv": "RRecv", "ack": "RAck", "timeout": "RTimeout"}[k], c, _chnum(ch), N(seq)))
        spec = "(mkRS %d %s %d %s %s %s %s %s)" % (r["chain"], cx.acct(r["sender"]), _chnum(r["chan"]), cx.denom_t(r["denom"]), ZZ(r["amt"]),
                                                   cx.oacct(r["recv"]), cx.memo(r["memo"]), lst(r["timeouts"], lambda k: "HO %d" % k))
        routes.append("mkRR %s %s %s" % (lst(ops, str), spec, lst(ob, chain_obs)))
    # tracked accounts per chain: all labelled addresses that ever appear, plus the escrow/override accounts of the chain
    for i in range(n):
        for (ci, a, cj, bb) in inp["chans"]:
            pass
    # accounts: every labelled address is compared on every chain where it can hold funds
    univ = []
    for i in range(n):
        acc_terms = sorted(set(cx.acct(a) for a in inp["labels"] if _on_chain(inp, i, a, accts)))
        univ.append("UV %d %s %s" % (i, lst(acc_terms, str), lst(sorted(denoms[i]), cx.denom_t)))
    cfg = []
    for i in range(n):
        bals = [e for e in inp["init"][i]["bal"] if e[1] == "stake"]
        cfg.append("CF %d %s %s" % (i, lst(chans_of[i], lambda x: "%d" % x), lst(bals, lambda e: "AZ %s %s" % (cx.acct(e[0]), ZZ(e[2])))))
    return "PfmHist %s %s %s %s\n   %s" % (lst(peers, str), lst(cfg, str), lst(univ, str), lst(inp["init"], chain_obs),
                                          "[" + ";\n    ".join(routes) + "]")


def _on_chain(inp, i, addr, accts):
    """is this labelled address an account of chain i: users by observation, escrow/override by their channel"""
    lab = inp["labels"][addr]
    if lab[0] == "user":
        return addr in accts[i]
    ch = lab[1]
    for (ci, a, cj, bb) in inp["chans"]:
        if (ci == i and a == ch) or (cj == i and bb == ch):
            return True
    return False


def spec_pfm_c31(rec):
    """C31 on the implementation's record: after the origin transfer and after every relayer operation of every route,
    on every chain and for every denomination, the tracked total escrow (GetTotalEscrowForDenom) equals the combined
    balance of that chain's transfer escrow accounts; likewise at quiescence."""
    inp = rec["in"]
    labels = inp["labels"]
    for ri, (rr, ob) in enumerate(zip(inp["routes"], rec["out"])):
        ops = [["transfer", rr["route"]["chain"], rr["route"]["chan"], "-"]] + list(rr.get("ops") or [])
        for oi, snapshot in enumerate(rr.get("esctr") or []):
            for ci, co in enumerate(snapshot):
                tracked = dict((d, int(x)) for d, x in co["esc"] or [])
                held = {}
                for a, d, x in co["held"] or []:
                    held[d] = held.get(d, 0) + int(x)
                for d in sorted(set(tracked) | set(held)):
                    if tracked.get(d, 0) != held.get(d, 0):
                        op = ops[oi] if oi < len(ops) else ["?", "?", "?", "?"]
                        return ("route %d (%s), after operation %d (%s on chain %s, %s/%s): chain %d tracks total escrow %d of %s "
                                "but its transfer escrow accounts hold %d" % (ri, rr.get("tag"), oi, op[0], op[1], op[2], op[3], ci,
                                                                           tracked.get(d, 0), d, held.get(d, 0)))
        for ci, co in enumerate(ob):
            tracked = dict((d, int(x)) for d, x in co["esc"] or [])
            held = {}
            for a, d, x in co["bal"] or []:
                if labels.get(a, [""])[0] == "escrow":
                    held[d] = held.get(d, 0) + int(x)
            for d in sorted(set(tracked) | set(held)):
                if tracked.get(d, 0) != held.get(d, 0):
                    return ("route %d (%s), at quiescence: chain %d tracks total escrow %d of %s but its transfer escrow accounts hold %d"
                            % (ri, rr.get("tag"), ci, tracked.get(d, 0), d, held.get(d, 0)))
        if rr.get("failed"):
            return "route %d (%s): a relayer transaction failed: %s" % (ri, rr.get("tag"), rr["failed"][:300])
    return None


def spec_pfm_hist(rec, pid="C43"):
    if pid == "C31":
        return spec_pfm_c31(rec)
    return spec_pfm_c43(rec)


def spec_pfm_c43(rec):
    """C43 on the implementation's record, route by route at quiescence: all-or-nothing, nothing left on intermediate
    chains' override accounts, no in-flight record, vouchers backed by escrow across every channel."""
    inp = rec["in"]
    cx = _PfmCtx(rec)
    n = inp["n"]
    labels = inp["labels"]
    prev = inp["init"]

    def tab(ob):
        t = []
        for co in ob:
            t.append((dict(((a, d), int(x)) for a, d, x in co["bal"] or []), dict((d, int(x)) for d, x in co["sup"] or []),
                      dict((d, int(x)) for d, x in co["esc"] or [])))
        return t

    def path_of(t):
        return "/".join("transfer/channel-%d" % c for c in t) + "/stake" if t else "stake"

    def coin_of(t):
        return "stake" if not t else "ibc/" + hashlib.sha256(path_of(t).encode()).hexdigest().upper()

    for ri, (rr, ob) in enumerate(zip(inp["routes"], rec["out"])):
        r = rr["route"]
        before, after = tab(prev), tab(ob)
        where = "route %d (%s)" % (ri, rr.get("tag"))
        if rr.get("failed"):
            return "%s: a relayer transaction failed, the route cannot complete (funds and in-flight record stuck): %s" % (where, rr["failed"][:300])
        # no in-flight record anywhere
        for i, co in enumerate(ob):
            if co["infl"]:
                return "%s: in-flight records left on chain %d at quiescence: %s" % (where, i, co["infl"])
        # override (intermediate receive) accounts hold nothing
        for i in range(n):
            for (a, d), x in after[i][0].items():
                if labels.get(a, [""])[0] == "override" and x != 0:
                    return "%s: override account %s on chain %d keeps %d %s" % (where, a, i, x, d)
        # all-or-nothing
        amt = int(r["amt"])
        c0 = r["chain"]
        sender_delta = after[c0][0].get((r["sender"], r["denom"]), 0) - before[c0][0].get((r["sender"], r["denom"]), 0)
        unchanged = all(_nz(before[i][0]) == _nz(after[i][0]) and _nz(before[i][1]) == _nz(after[i][1]) and _nz(before[i][2]) == _nz(after[i][2])
                        for i in range(n))
        if not r["ok"]:
            if not unchanged:
                return "%s: the origin transfer failed but balances changed" % where
        elif sender_delta == 0:
            if not unchanged:
                return "%s: the sender was refunded but some balance, voucher supply or total escrow did not return to its starting value" % where
        elif sender_delta == -amt:
            # exactly one user account somewhere gained exactly amt (the final receiver), nobody else gained
            gains = []
            for i in range(n):
                for key in set(before[i][0]) | set(after[i][0]):
                    dlt = after[i][0].get(key, 0) - before[i][0].get(key, 0)
                    if dlt != 0 and labels.get(key[0], [""])[0] == "user" and not (i == c0 and key == (r["sender"], r["denom"])):
                        gains.append((i, key, dlt))
            if len(gains) != 1 or gains[0][2] != amt:
                return "%s: sender debited %d but receiver credits are %s" % (where, amt, gains)
        else:
            return "%s: sender balance changed by %d, expected 0 or -%d" % (where, sender_delta, amt)
        # conservation: escrow accounts = total escrow; voucher supply = tracked balances; escrow of a channel backs the
        # voucher supply on the other side
        for i in range(n):
            bal, sup, esc = after[i]
            for d, x in sup.items():
                held = sum(v for (a, dd), v in bal.items() if dd == d)
                if held != x:
                    return "%s: chain %d supply of %s is %d but accounts hold %d" % (where, i, d, x, held)
            dens = set(d for (_, d) in bal) | set(esc)
            for d in dens:
                in_escrow = sum(v for (a, dd), v in bal.items() if dd == d and labels.get(a, [""])[0] == "escrow")
                if in_escrow != esc.get(d, 0):
                    return "%s: chain %d total escrow of %s is %d but escrow accounts hold %d" % (where, i, d, esc.get(d, 0), in_escrow)
        for (i, a, j, bb) in inp["chans"]:
            for (x, cha, y, chb) in ((i, a, j, bb), (j, bb, i, a)):
                ea = [ad for ad, lab in labels.items() if lab[0] == "escrow" and lab[1] == cha]
                for (acc, d), v in after[x][0].items():
                    if acc in ea and v != 0:
                        t, _ = cx.denom(d)
                        vd = coin_of((_chnum(chb),) + t)
                        if after[y][1].get(vd, 0) != v:
                            return ("%s: escrow of %s on chain %d holds %d %s but chain %d's supply of its voucher is %d"
                                    % (where, cha, x, v, d, y, after[y][1].get(vd, 0)))
        prev = ob
    return None


def enc_pfm_denom(rec):
    port, ch, cport, cch, tr, base = rec["in"]
    tr = tr or []
    return "PfmDenom %s %s %s %s %s %s %s" % (hx(port), hx(ch), hx(cport), hx(cch), lst(tr, lambda h: "SH %s %s" % (hx(h[0]), hx(h[1]))),
                                              hx(base), hx(rec["out"]))


def spec_pfm_denom(rec):
    """the forwarded denomination must be the coin denomination ICS-20 credits for that packet on this chain"""
    port, ch, cport, cch, tr, base = [bytes.fromhex(x).decode() if isinstance(x, str) else x for x in rec["in"]]
    tr = [(bytes.fromhex(h[0]).decode(), bytes.fromhex(h[1]).decode()) for h in (tr or [])]
    if tr and tr[0] == (cport, cch):
        tr2 = tr[1:]
    else:
        tr2 = [(port, ch)] + tr
    if not tr2:
        want = base
    else:
        path = "".join("%s/%s/" % h for h in tr2) + base
        want = "ibc/" + hashlib.sha256(path.encode()).hexdigest().upper()
    got = bytes.fromhex(rec["out"]).decode()
    if got != want:
        return "getDenomForThisChain(%s,%s,%s,%s,%s,%s) = %s; ICS-20 credits %s" % (port, ch, cport, cch, tr, base, got, want)


def _nz(dct):
    return dict((k, v) for k, v in dct.items() if v != 0)


def nontrivial_pfm(rec):
    return any(len(r["ops"]) >= 3 for r in rec["in"]["routes"])


KINDS = {
    "rl_hist": dict(props=["C41"], enc=enc_rl_hist, spec=spec_rl_hist, exact=True, nontrivial=nontrivial_rl),
    "pfm_hist": dict(props=["C43", "C31"], enc=enc_pfm_hist, spec=spec_pfm_hist, spec_takes_pid=True, exact=True, nontrivial=nontrivial_pfm),
    "pfm_denom": dict(props=["C43"], enc=enc_pfm_denom, spec=spec_pfm_denom, exact=True),
}

KNOWN = {}
