"""`pfmrl` family: rate-limit histories (C41) and packet-forward routes (C43) on real simapp chains."""
import hashlib
from lib.coqgen import N, Z, b, hx, opt, lst

NAME = "pfmrl"
GO_PKG = "./pfmrl"
COQ_IMPORTS = "From IBC Require Import Lib.Bytes Lib.CorrLib PfmRl.RateLimit PfmRl.Pfm Corr.PfmRl."
CASE_TYPE = "Case"
CHECK = "check"

# ================================================================================================ C41

def ZZ(x):
    """Z literal in an argument position whose type is Z (the argument scope applies)"""
    x = int(x)
    return "(%d)" % x if x < 0 else "%d" % x


class Ids:
    """per-history numbering of strings (denoms, channels, addresses)"""
    def __init__(self):
        self.m = {}
    def __call__(self, s):
        if s not in self.m:
            self.m[s] = len(self.m) + 1
        return self.m[s]


def _parse_pending(s):
    """{channel}/{sequence}/{denom}; the denom may contain '/'"""
    ch, seq, denom = s.split("/", 2)
    return (denom, ch, int(seq))


def _rl_ops(rec):
    return rec["in"]["ops"]


def enc_rl_hist(rec):
    ids = Ids()
    inp = rec["in"]
    def path(p):
        return "(P %d %d)" % (ids("d:" + p[0]), ids("c:" + p[1]))
    def pk(x):
        return "(mkPkt %s %s %s %d %d)" % (path((x["denom"], x["chan"])), N(x["seq"]), ZZ(x["amt"]), ids("a:" + x["from"]), ids("a:" + x["to"]))
    def quota(q):
        return "(mkQ %s %s %s)" % (ZZ(q[0]), ZZ(q[1]), N(q[2]))
    univ = set()
    def note(x):
        univ.add((x["denom"], x["chan"], int(x["seq"])))
    terms = []
    for op, ob in zip(inp["ops"], rec["out"]):
        k = op["op"]
        for f in ("pk", "pk2"):
            if f in op:
                note(op[f])
        if k == "block":
            t = "OBeginBlock %s %s" % (ZZ(op["t"]), lst(op["sup"], lambda x: "SV %d %s" % (ids("d:" + x[0]), ZZ(x[1]))))
        elif k == "send":
            t = "OSend %s %s" % (pk(op["pk"]), b(op["env_ok"]))
        elif k == "recv":
            t = "ORecv %s %s" % (pk(op["pk"]), {"ok": "AppOk", "err": "AppErr", "async": "AppAsync"}[op["app"]])
        elif k == "recvfwd":
            t = "ORecvFwd %s %s %s" % (pk(op["pk"]), pk(op["pk2"]), b(op["env_ok"]))
        elif k == "timeoutretry":
            t = "OTimeoutRetry %s %s %s" % (pk(op["pk"]), pk(op["pk2"]), b(op["env_ok"]))
        elif k == "writeack":
            t = "OWriteAck %s %s" % (pk(op["pk"]), b(op["success"]))
        elif k == "ack":
            t = "OAck %s %s" % (pk(op["pk"]), b(op["success"]))
        elif k == "timeout":
            t = "OTimeout %s" % pk(op["pk"])
        elif k == "add":
            t = "OAdd %s %s %s %s %s" % (path(op["path"]), quota(op["q"]), ZZ(op["cv"]), b(op["chan_exists"]), b(op["auth"]))
        elif k == "update":
            t = "OUpdate %s %s %s %s" % (path(op["path"]), quota(op["q"]), ZZ(op["cv"]), b(op["auth"]))
        elif k == "remove":
            t = "ORemove %s %s" % (path(op["path"]), b(op["auth"]))
        elif k == "reset":
            t = "OReset %s %s %s" % (path(op["path"]), ZZ(op["cv"]), b(op["auth"]))
        elif k == "blacklist":
            t = "OBlacklist %d %s" % (ids("d:" + op["denom"]), b(op["v"]))
        elif k == "whitelist":
            t = "OWhitelist %d %d %s" % (ids("a:" + op["a"]), ids("a:" + op["b"]), b(op["v"]))
        else:
            raise ValueError("unknown op " + k)
        if ob is not None:
            for s in ob["ps"] + ob["pr"]:
                univ.add(_parse_pending(s))
        terms.append((t, ob))
    def pn(x):
        return "PN %d %d %d" % (ids("d:" + x[0]), ids("c:" + x[1]), x[2])
    def obs(ob):
        if ob is None:
            return "NoOb"
        lims = lst(ob["lims"], lambda l: "NL" if l is None else "LO %s %s %s %s %s %s" % (ZZ(l[0]), ZZ(l[1]), N(l[2]), ZZ(l[3]), ZZ(l[4]), ZZ(l[5])))
        return "(OB %d %s %s %s %s %s)" % (ob["cls"], lims, lst([_parse_pending(s) for s in ob["ps"]], pn),
                                          lst([_parse_pending(s) for s in ob["pr"]], pn), N(ob["epn"]), ZZ(ob["eps"]))
    init = inp["init"]
    ops = "[" + ";\n    ".join("X (%s) %s" % (t, obs(ob)) for t, ob in terms) + "]"
    return "RlHist %s %s %s %s %s\n    %s" % (N(init["epn"]), ZZ(init["eps"]), ZZ(init.get("epd", 3600 * 10**9)),
                                              lst(inp["paths"], path), lst(sorted(univ), pn), ops)


def _quot(a, b_):
    """sdkmath.Int.Quo: truncation toward zero"""
    q = abs(a) // abs(b_)
    return q if (a >= 0) == (b_ >= 0) else -q


class _Lim:
    def __init__(self, qs, qr, hours, cv):
        self.qs, self.qr, self.hours, self.cv = qs, qr, hours, cv
        self.acc = {"in": 0, "out": 0}       # amounts accepted in the current window
        self.undone = {"in": 0, "out": 0}    # amounts of those later refunded in it
        self.live = {"in": {}, "out": {}}    # packets accepted in the current window and not finalised
    def flow(self, d):
        return self.acc[d] - self.undone[d]
    def exceeds(self, d, amt):
        if self.cv == 0:
            return False
        other = "out" if d == "in" else "in"
        net = self.flow(d) - self.flow(other) + amt
        pct = self.qr if d == "in" else self.qs
        return net > _quot(self.cv * pct, 100)


def spec_rl_hist(rec):
    """C41 evaluated directly on the implementation's record: a ghost log of (packet, direction, amount) per
    window is folded from the recorded operations and outcomes; the recorded flows must equal
    accepted-in-window minus undone-in-window, acceptance must follow the quota formula, and a receive
    answered by an error acknowledgement must leave everything unchanged."""
    inp = rec["in"]
    init = inp["init"]
    paths = [tuple(p) for p in inp["paths"]]
    epn, eps, epd = int(init["epn"]), int(init["eps"]), int(init.get("epd", 3600 * 10**9))
    lim, black, white = {}, set(), set()
    prev = init
    undone_once = set()

    def try_accept(d, x, commit):
        """returns True when the rate limiter lets the packet through; commit applies the ghost accept"""
        p = (x["denom"], x["chan"])
        if x["denom"] in black:
            return False
        l = lim.get(p)
        if l is None or (x["from"], x["to"]) in white:
            return True
        amt = int(x["amt"])
        if l.exceeds(d, amt):
            return False
        if commit:
            l.acc[d] += amt
            l.live[d][int(x["seq"])] = amt
        return True

    def refund(d, x, i):
        p = (x["denom"], x["chan"])
        l = lim.get(p)
        if l is None:
            return None
        seq = int(x["seq"])
        if seq in l.live[d]:
            key = (d, p, seq, id(l))
            if key in undone_once:
                return "op %d: packet %s/%d undone twice in one window" % (i, p, seq)
            undone_once.add(key)
            l.undone[d] += l.live[d].pop(seq)
        return None

    def finalise(d, x):
        l = lim.get((x["denom"], x["chan"]))
        if l is not None:
            l.live[d].pop(int(x["seq"]), None)

    for i, (op, ob) in enumerate(zip(inp["ops"], rec["out"])):
        k = op["op"]
        cls = None if ob is None else ob["cls"]
        want = None
        if k == "block":
            if epd != 0 and int(op["t"]) > eps + epd:
                epn += 1
                eps += epd
                sup = dict((d, int(v)) for d, v in op["sup"])
                for p, l in list(lim.items()):
                    if l.hours != 0 and epn % l.hours == 0:
                        lim[p] = _Lim(l.qs, l.qr, l.hours, sup.get(p[0], 0))
        elif k == "send":
            ok = try_accept("out", op["pk"], False) and op["env_ok"]
            want = 0 if ok else 1
            if cls == 0:
                try_accept("out", op["pk"], True)
        elif k == "recv":
            ok = try_accept("in", op["pk"], False)
            want = 1 if (not ok or op["app"] == "err") else (2 if op["app"] == "async" else 0)
            if cls in (0, 2):
                try_accept("in", op["pk"], True)
        elif k == "recvfwd":
            ok = try_accept("in", op["pk"], False)
            if ok and cls == 2:
                try_accept("in", op["pk"], True)
                ok2 = try_accept("out", op["pk2"], True)
                want = 2 if (ok2 and op["env_ok"]) else 1
            elif ok:
                # observed denial: legal only if the forward's own send is over quota (checked after the inflow is added)
                import copy
                saved = copy.deepcopy(lim)
                try_accept("in", op["pk"], True)
                ok2 = try_accept("out", op["pk2"], False)
                lim.clear(); lim.update(saved)
                want = 2 if (ok2 and op["env_ok"]) else 1
            else:
                want = 1
        elif k == "timeoutretry":
            if cls == 0:
                why = refund("out", op["pk"], i)
                if why:
                    return why
                if not try_accept("out", op["pk2"], True):
                    return "op %d: retried forward accepted although it exceeds the quota" % i
            want = cls
        elif k == "ack":
            if op["success"]:
                finalise("out", op["pk"])
            else:
                why = refund("out", op["pk"], i)
                if why:
                    return why
        elif k == "timeout":
            why = refund("out", op["pk"], i)
            if why:
                return why
        elif k == "writeack":
            if op["success"]:
                finalise("in", op["pk"])
            else:
                why = refund("in", op["pk"], i)
                if why:
                    return why
        elif k in ("add", "update", "reset", "remove"):
            p = tuple(op["path"])
            if cls == 0:
                if k == "remove":
                    lim.pop(p, None)
                elif k == "reset":
                    l = lim.get(p)
                    if l is None:
                        return "op %d: reset of a missing rate limit succeeded" % i
                    lim[p] = _Lim(l.qs, l.qr, l.hours, int(op["cv"]))
                else:
                    q = op["q"]
                    lim[p] = _Lim(int(q[0]), int(q[1]), int(q[2]), int(op["cv"]))
        elif k == "blacklist":
            (black.add if op["v"] else black.discard)(op["denom"])
        elif k == "whitelist":
            (white.add if op["v"] else white.discard)((op["a"], op["b"]))
        if ob is None:
            continue
        if want is not None and cls != want:
            return "op %d (%s): outcome class %s, the quota rule requires %s (packet %s)" % (i, k, cls, want, op.get("pk"))
        if k in ("recv", "recvfwd") and cls == 1:
            if (ob["lims"], ob["ps"], ob["pr"]) != (prev["lims"], prev["ps"], prev["pr"]):
                return "op %d: a receive answered by an error acknowledgement changed the rate-limit state" % i
        for p, o in zip(paths, ob["lims"]):
            l = lim.get(p)
            if (l is None) != (o is None):
                return "op %d: rate limit %s present=%s, history requires present=%s" % (i, p, o is not None, l is not None)
            if l is None:
                continue
            got = (int(o[3]), int(o[4]))
            need = (l.flow("in"), l.flow("out"))
            if got != need:
                return ("op %d (%s): recorded (inflow, outflow) of %s = %s; accepted in the current window minus undone in it = %s"
                        % (i, k, p, got, need))
            if got[0] < 0 or got[1] < 0:
                return "op %d: negative flow %s" % (i, got)
            if int(o[5]) != l.cv:
                return "op %d: channel value of %s is %s, the supply at window start was %s" % (i, p, o[5], l.cv)
        prev = ob
    return None


def nontrivial_rl(rec):
    return sum(1 for o in rec["in"]["ops"] if o["op"] != "block") >= 5


KINDS = {
    "rl_hist": dict(props=["C41"], enc=enc_rl_hist, spec=spec_rl_hist, exact=True, nontrivial=nontrivial_rl),
}

KNOWN = {}
