"""`determinism` family (C45): map-range site inventory, the same history in three OS processes, Router.Keys."""
from lib.coqgen import b, hx, lst

NAME = "determinism"
GO_PKG = "./determinism"
COQ_IMPORTS = "From IBC Require Import Lib.Bytes Lib.CorrLib Sys.Determinism Corr.Determinism."
CASE_TYPE = "Case"
CHECK = "check"


def hs(s):
    return hx(s.encode().hex())


def enc_mapsite(r):
    return "MapSites %s %s" % (lst(r["in"]["expected"], hx), lst(r["out"]["found"], hx))


def spec_mapsite(r):
    exp = {bytes.fromhex(x).decode() for x in r["in"]["expected"]}
    found = {bytes.fromhex(x).decode() for x in r["out"]["found"]}
    new = sorted(found - exp)
    gone = sorted(exp - found)
    if new:
        return "range over a map with no order-independence lemma (new or changed site): %s" % new
    if gone:
        return "site list out of date: expected map-range sites no longer present (their lemmas no longer describe the code): %s" % gone


def enc_procs(r):
    return "Procs %s" % lst(r["out"], lambda row: lst(row, hs))


def spec_procs(r):
    rows = r["out"]
    cfg = r["in"]["gomaxprocs"]
    for i, row in enumerate(rows[1:], 1):
        if len(row) != len(rows[0]):
            return "processes observed a different number of blocks: GOMAXPROCS=%s %d vs GOMAXPROCS=%s %d" % (cfg[0], len(rows[0]), cfg[i], len(row))
        for j, (x, y) in enumerate(zip(rows[0], row)):
            if x != y:
                return "same history, different result in separate processes: observation %d is %r under GOMAXPROCS=%s and %r under GOMAXPROCS=%s" % (j, x, cfg[0], y, cfg[i])
    if len(rows) < 2:
        return "fewer than two processes were compared"


def enc_router_keys(r):
    return "RouterKeys %s %s" % (lst(r["in"], hx), lst(r["out"], hx))


def spec_router_keys(r):
    ins = [bytes.fromhex(x) for x in r["in"]]
    out = [bytes.fromhex(x) for x in r["out"]]
    if out != sorted(ins):
        return "Router.Keys() = %r is not the sorted list of the registered names %r" % (out, sorted(ins))


KINDS = {
    "mapsite": dict(props=["C45"], enc=enc_mapsite, spec=spec_mapsite, exact=True),
    "procs": dict(props=["C45"], enc=enc_procs, spec=spec_procs, exact=True),
    "router_keys": dict(props=["C45"], enc=enc_router_keys, spec=spec_router_keys, exact=True),
}

KNOWN = {}
