"""`auth` family (C46): operation x signer class x configuration matrix through the real message servers,
histories of client-scoped operations, and the pure allow-list helpers."""
from lib.coqgen import N, b, hx, opt, lst, nat

NAME = "auth"
GO_PKG = "./auth"
COQ_IMPORTS = "From IBC Require Import Lib.Bytes Lib.CorrLib Sys.Auth Corr.Auth."
CASE_TYPE = "Case"
CHECK = "check"

OUT = {"ok": "Ok", "err": "Err", "panic": "Panic"}

AUTHORITY_OPS = {"RecoverClient", "SoftwareUpgrade", "ClientParams", "ConnParams", "TransferParams", "IcaHostParams",
                 "IcaCtrlParams", "RlAdd", "RlUpdate", "RlRemove", "RlReset", "WasmStore", "WasmRemove", "WasmMigrate"}
RELAYER_OPS = {"UpdateClient", "RecvV2", "AckV2", "TimeoutV2"}
ROUTED_OPS = {"RecoverClient", "CreateClient", "UpdateClient", "RecvV2", "AckV2", "TimeoutV2", "RecvV1Use", "ClientStatus"}
ALL_OPS = AUTHORITY_OPS | RELAYER_OPS | ROUTED_OPS | {"RegisterCounterparty", "UpdateClientConfig", "DeleteClientCreator"}


def table(t):
    return lst(t, lambda kv: "(%s, %s)" % (hx(kv[0]), hx(kv[1])))


def hxl(xs):
    return lst(xs or [], hx)


def env(i):
    return "(mkEnv %s %s)" % (hx(i["keeper_auth"]), hx(i["cp_auth"]))


# ---- matrix cells ----------------------------------------------------------------------------

def enc_cell(r):
    i, o = r["in"], r["out"]
    if i["op"] not in ALL_OPS:
        raise ValueError("unknown op " + i["op"])
    ctx = "(mkCtx %s %s %s %s %s %s %s %s %s %s)" % (
        env(i), hx(i["signer"]), hx(i["creator"]), b(i["cp_set"]), hxl(i["relayers"]), hxl(i["allowed"]),
        opt(i["ctype"], hx), b(i["routed"]), b(i["pre"]), b(i["body"]))
    return "Cell %s %s %s %s %s" % (table(i["table"]), i["op"], ctx, OUT[o["outcome"]], b(o["dirty"]))


def _requirements(op, signer, tab, eff_auth, creator, cp_set, relayers, allowed, ctype):
    """The property text, evaluated directly: list of reasons why an Ok outcome would be a violation."""
    why = []
    addr = tab.get(signer)
    if op in AUTHORITY_OPS and signer != eff_auth:
        why.append("signer is not the configured authority")
    if op == "RegisterCounterparty":
        if not creator or addr != creator:
            why.append("signer is not the client's creator")
        if cp_set:
            why.append("a counterparty is already registered")
    if op in ("UpdateClientConfig", "DeleteClientCreator"):
        if not (signer == eff_auth or (creator and addr == creator)):
            why.append("signer is neither the authority nor the client's creator")
    if op in RELAYER_OPS and relayers:
        listed = {tab.get(x) for x in relayers} - {None}
        if addr is None or addr not in listed:
            why.append("signer is not on the client's non-empty relayer allow list")
    if op in ROUTED_OPS:
        if not (allowed == ["*".encode().hex()] or (ctype is not None and ctype in allowed)):
            why.append("client type is not on the allowed-client list")
    return why


def spec_cell(r):
    i, o = r["in"], r["out"]
    tab = {k: v for k, v in i["table"]}
    eff = i["cp_auth"] or i["keeper_auth"]
    why = _requirements(i["op"], i["signer"], tab, eff, i["creator"], i["cp_set"], i["relayers"] or [],
                        i["allowed"] or [], i["ctype"])
    if why and o["outcome"] == "ok":
        return "%s succeeded for signer class %s although %s (client %s)" % (i["op"], i.get("class"), "; ".join(why), i.get("client"))
    # a refused message must leave no state difference; CreateClient bumps the client sequence before routing,
    # which only transaction atomicity undoes, so it is exempt from the raw (pre-rollback) comparison
    if why and o["dirty"] and i["op"] != "CreateClient":
        return "%s was refused for signer class %s (%s) but changed state before failing" % (i["op"], i.get("class"), "; ".join(why))
    if o["outcome"] == "ok" and i["op"] == "ClientStatus" and o["dirty"]:
        return "status query changed state"


# ---- histories -------------------------------------------------------------------------------

def enc_hop(op):
    k = op[0]
    if k == "create":
        return "HCreate %s %s %s" % (hx(op[1]), hx(op[2]), b(op[3]))
    if k == "register":
        return "HRegister %s %s" % (nat(op[1]), hx(op[2]))
    if k == "config":
        return "HConfig %s %s %s" % (nat(op[1]), hx(op[2]), hxl(op[3]))
    if k == "delete":
        return "HDeleteCreator %s %s" % (nat(op[1]), hx(op[2]))
    if k == "update":
        return "HUpdate %s %s %s %s" % (nat(op[1]), hx(op[2]), hx(op[3]), b(op[4]))
    if k == "params":
        return "HParams %s %s" % (hx(op[1]), hxl(op[2]))
    raise ValueError("unknown history op %r" % (k,))


def enc_hist(r):
    i = r["in"]
    return "Hist %s %s %s %s %s" % (table(i["table"]), env(i), hxl(i["allowed0"]),
                                    lst(i["ops"], lambda o: "(" + enc_hop(o) + ")"), lst(r["out"], lambda x: OUT[x]))


def spec_hist(r):
    """Replays the accepted steps with plain bookkeeping and applies the property text to every accepted step."""
    i = r["in"]
    tab = {k: v for k, v in i["table"]}
    eff = i["cp_auth"] or i["keeper_auth"]
    allowed = list(i["allowed0"])
    creator, registered, relayers = {}, set(), {}
    nxt = 0
    star = "*".encode().hex()
    for n, (op, out) in enumerate(zip(i["ops"], r["out"])):
        if out != "ok":
            continue
        k = op[0]
        where = "step %d %s" % (n, k)
        if k == "create":
            if not (allowed == [star] or op[2] in allowed):
                return where + ": client of a type not on the allowed list was created"
            creator[nxt] = tab.get(op[1]); nxt += 1
        elif k == "register":
            cid, sg = op[1], op[2]
            if cid in registered:
                return where + ": counterparty registered a second time for client %d" % cid
            if not creator.get(cid) or tab.get(sg) != creator.get(cid):
                return where + ": counterparty registered by a signer who is not the creator of client %d" % cid
            registered.add(cid)
        elif k in ("config", "delete"):
            cid, sg = op[1], op[2]
            if not (sg == eff or (creator.get(cid) and tab.get(sg) == creator.get(cid))):
                return where + ": accepted from a signer who is neither authority nor creator of client %d" % cid
            if k == "delete":
                if not creator.get(cid):
                    return where + ": creator deleted although none was stored"
                creator[cid] = None
            else:
                relayers[cid] = op[3]
        elif k == "update":
            cid, sg = op[1], op[2]
            rl = relayers.get(cid) or []
            if rl and tab.get(sg) not in ({tab.get(x) for x in rl} - {None}):
                return where + ": client %d updated by a relayer not on its allow list" % cid
            if not (allowed == [star] or op[3] in allowed):
                return where + ": client of a type not on the allowed list was updated"
        elif k == "params":
            if op[1] != eff:
                return where + ": client params updated by a non-authority signer"
            allowed = list(op[2])


# ---- pure helpers ----------------------------------------------------------------------------

def enc_allowed_client(r):
    return "AllowedClient %s %s %s" % (hxl(r["in"][0]), hx(r["in"][1]), b(r["out"]))


def spec_allowed_client(r):
    al, ct = r["in"]
    if r["out"] and not (al == ["*".encode().hex()] or ct in al):
        return "IsAllowedClient accepted type %r not on the list %r" % (bytes.fromhex(ct), [bytes.fromhex(x) for x in al])
    if r["out"] and bytes.fromhex(ct).strip() == b"":
        return "IsAllowedClient accepted a blank client type"


def enc_allowed_relayer(r):
    t, rs, a = r["in"]
    return "AllowedRelayer %s %s %s %s" % (table(t), hxl(rs), hx(a), opt(r["out"], b))


def spec_allowed_relayer(r):
    t, rs, a = r["in"]
    tab = {k: v for k, v in t}
    if r["out"] is True and rs and a not in {tab.get(x) for x in rs}:
        return "IsAllowedRelayer accepted an address that is not on the non-empty list"


KINDS = {
    "auth_cell": dict(props=["C46"], enc=enc_cell, spec=spec_cell, exact=False),
    "auth_hist": dict(props=["C46"], enc=enc_hist, spec=spec_hist, exact=False),
    "allowed_client": dict(props=["C46"], enc=enc_allowed_client, spec=spec_allowed_client, exact=True),
    "allowed_relayer": dict(props=["C46"], enc=enc_allowed_relayer, spec=spec_allowed_relayer, exact=True),
}

KNOWN = {}
