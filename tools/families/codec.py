"""`codec` family: C35 (encodings round-trip, decoders total) and C47 (stateless validation never panics).
C47 kinds live in harness/codec/c47_kinds.py (KINDS47: enc returns a Case47 term, wrapped in K47 here)."""
import os, importlib.util
from lib.coqgen import N, Z, b, opt, lst
from lib.coqgen import hx as hx_str

def hx(h):
    """hex string -> bytes term; long strings as packed 63-bit integer literals (Codec/Lit.v [ib]):
    a Coq string literal costs ~10 term nodes per character to elaborate"""
    if len(h) <= 16:
        return hx_str(h)
    bs = bytes.fromhex(h)
    ints = [str(int.from_bytes(bs[i:i + 7], "big")) for i in range(0, len(bs), 7)]
    return "(ib %d [%s]%%uint63)" % (len(bs), ";".join(ints))

NAME = "codec"
GO_PKG = "./codec"
COQ_IMPORTS = ("From Coq Require Import Uint63. From IBC Require Import Lib.Bytes Lib.Dec Lib.CorrLib Core.Height Codec.Lit Codec.Abi Codec.Proto Codec.Corr35 Codec.Corr35Json Codec.Corr47 Corr.Codec.")
CASE_TYPE = "Case"
CHECK = "check"

KINDS = {}
KNOWN = {}

# ---- C35: ABI + protobuf ---------------------------------------------------------------------------
U256 = 1 << 256
U64 = 1 << 64
NANOS = 1000000000

def ftpd(v):
    return "(mkFTPD %s)" % " ".join(hx(x) for x in v)

def gmp(v):
    return "(mkGMP %s)" % " ".join(hx(x) for x in v)

def obs(o, f):
    if o is None:
        return "ONone"
    if o["r"] == "ok":
        return "(OOk %s)" % f(o["v"])
    return "OErr" if o["r"] == "err" else "OPanic"

def tup4(v):
    return "(%s, %s, %s, %s)" % tuple(hx(x) for x in v)

def nn(v):
    return "(%s, %s)" % (N(v[0]), N(v[1]))

def pkts(ps):
    return lst(ps, lambda p: "(%s, %s)" % (hx(p[0]), hx(p[1])))

def patt(v):
    return "(%s, %s)" % (N(v["h"]), pkts(v["ps"]))

def enc_abi_ftpd_rt(r):
    o = r["out"]
    return "AbiFtpdRt %s %s %s %s" % (ftpd(r["in"]), obs(o["enc"], hx), obs(o["dec"], ftpd), obs(o.get("unmarshal"), tup4))

def enc_abi_ftpd_dec(r):
    o = r["out"]
    return "AbiFtpdDec %s %s %s" % (hx(r["in"]), obs(o["dec"], ftpd), obs(o.get("unmarshal"), tup4))

def enc_proto_ftpd_rt(r):
    o = r["out"]
    return "ProtoFtpdRt %s %s %s %s" % (ftpd(r["in"]), obs(o["enc"], hx), obs(o["dec"], ftpd), obs(o.get("unmarshal"), tup4))

def enc_proto_ftpd_dec(r):
    o = r["out"]
    return "ProtoFtpdDec %s %s %s %s" % (hx(r["in"]), obs(o["dec"], ftpd), obs(o["lenient"], ftpd), obs(o.get("unmarshal"), tup4))

def enc_abi_gmp_rt(r):
    o = r["out"]
    return "AbiGmpRt %s %s %s %s" % (gmp(r["in"]), obs(o["enc"], hx), obs(o["dec"], gmp), obs(o["unmarshal"], gmp))

def enc_abi_gmp_dec(r):
    o = r["out"]
    return "AbiGmpDec %s %s %s" % (hx(r["in"]), obs(o["dec"], gmp), obs(o["unmarshal"], gmp))

def enc_abi_gmpack_rt(r):
    o = r["out"]
    return "AbiGmpAckRt %s %s %s %s" % (hx(r["in"]), obs(o["enc"], hx), obs(o["dec"], hx), obs(o["unmarshal"], hx))

def enc_abi_gmpack_dec(r):
    o = r["out"]
    return "AbiGmpAckDec %s %s %s" % (hx(r["in"]), obs(o["dec"], hx), obs(o["unmarshal"], hx))

def enc_stateatt_rt(r):
    o = r["out"]
    return "StateAttRt %s %s %s %s" % (N(r["in"][0]), N(r["in"][1]), obs(o["enc"], hx), obs(o["dec"], nn))

def enc_stateatt_dec(r):
    return "StateAttDec %s %s" % (hx(r["in"]), obs(r["out"]["dec"], nn))

def enc_packetatt_rt(r):
    o = r["out"]
    return "PacketAttRt %s %s %s %s" % (N(r["in"]["h"]), pkts(r["in"]["ps"]), obs(o["enc"], hx), obs(o["dec"], patt))

def enc_packetatt_dec(r):
    return "PacketAttDec %s %s" % (hx(r["in"]), obs(r["out"]["dec"], patt))

# ---- monitors (independent of the Coq model) -------------------------------------------------------

def _panics(o):
    """names of the calls of this record that panicked"""
    return [k for k, v in o.items() if isinstance(v, dict) and v.get("r") == "panic"]

def _s(h):
    return bytes.fromhex(h)

def _go_bigint(s):
    """big.Int.SetString(s, 10): optional sign, ASCII digits only"""
    b = _s(s)
    body = b[1:] if b[:1] in (b"+", b"-") else b
    if not body or any(c < 0x30 or c > 0x39 for c in body):
        return None
    v = int(body.decode())
    return -v if b[:1] == b"-" else v

def spec_abi_ftpd_rt(r):
    o = r["out"]
    p = _panics(o)
    if p:
        return "ICS-20 ABI codec panicked in %s on packet data %s" % (p, r["in"])
    a = _go_bigint(r["in"][1])
    if o["enc"].get("wrapper_differs"):
        return "MarshalPacketData(ABI) and EncodeABIFungibleTokenPacketData disagree on %s" % (r["in"],)
    if a is not None and 0 <= a < U256:
        if o["enc"]["r"] != "ok":
            return "ABI encoding refused packet data with amount %d: %s" % (a, r["in"])
        d = o["dec"]
        want = [r["in"][0], str(a).encode().hex(), r["in"][2], r["in"][3], r["in"][4]]
        if d is None or d["r"] != "ok" or d["v"] != want:
            return "ABI round trip changed the transfer: encoded %s, decoded %s" % (r["in"], d)
        u = o.get("unmarshal")
        if u is not None and u["r"] == "ok":
            if u["v"] != [str(a).encode().hex(), r["in"][2], r["in"][3], r["in"][4]]:
                return "UnmarshalPacketData(ABI) returned a different transfer than was encoded: %s -> %s" % (r["in"], u["v"])

def spec_dec_nopanic(what):
    def f(r):
        p = _panics(r["out"])
        if p:
            return "%s decoding panicked in %s on bytes %s" % (what, p, r["in"])
    return f

def _pb_varint(b, i):
    v = 0
    for k in range(10):
        if i >= len(b):
            return None
        y = b[i]; i += 1
        v |= (y & 0x7f) << (7 * k)
        if y < 0x80:
            return v, i
    return None

def pb_top_fields(b):
    """top-level (field number, wire type) list, or None when the bytes are not a protobuf message"""
    i = 0; out = []
    depth = 0
    while i < len(b):
        t = _pb_varint(b, i)
        if t is None:
            return None
        tag, i = t
        num, wt = tag >> 3, tag & 7
        if depth == 0:
            out.append((num, wt))
        if wt == 0:
            t = _pb_varint(b, i)
            if t is None:
                return None
            i = t[1]
        elif wt == 1:
            i += 8
        elif wt == 2:
            t = _pb_varint(b, i)
            if t is None:
                return None
            i = t[1] + t[0]
        elif wt == 3:
            depth += 1
        elif wt == 4:
            if depth == 0:
                return None
            depth -= 1
        elif wt == 5:
            i += 4
        else:
            return None
        if i > len(b):
            return None
    return out if depth == 0 else None

def spec_proto_ftpd_rt(r):
    o = r["out"]
    p = _panics(o)
    if p:
        return "ICS-20 protobuf codec panicked in %s on packet data %s" % (p, r["in"])
    if o["enc"]["r"] != "ok":
        return "protobuf encoding failed for %s" % (r["in"],)
    d = o["dec"]
    if d is None or d["r"] != "ok" or d["v"] != list(r["in"]):
        return "protobuf round trip changed the packet data: encoded %s, decoded %s" % (r["in"], d)
    u = o.get("unmarshal")
    if u is not None and u["r"] == "ok" and u["v"] != [r["in"][1], r["in"][2], r["in"][3], r["in"][4]]:
        return "UnmarshalPacketData(protobuf) returned a different transfer than was encoded: %s -> %s" % (r["in"], u["v"])

def spec_proto_ftpd_dec(r):
    o = r["out"]
    p = _panics(o)
    if p:
        return "protobuf decoding panicked in %s on bytes %s" % (p, r["in"])
    fields = pb_top_fields(_s(r["in"]))
    unknown = fields is None or any(not (1 <= n <= 5) for n, _ in fields)
    if unknown and o["dec"]["r"] == "ok":
        return "protobuf decoding (RejectUnknownFieldsStrict + Unmarshal) accepted bytes with unknown fields %s: %s" % (fields, r["in"])
    u = o.get("unmarshal")
    if unknown and u is not None and u["r"] == "ok":
        return "UnmarshalPacketData(protobuf) accepted bytes with unknown fields %s: %s" % (fields, r["in"])

def spec_abi_gmp_rt(r):
    o = r["out"]
    p = _panics(o)
    if p:
        return "GMP ABI codec panicked in %s on %s" % (p, r["in"])
    if o["enc"]["r"] != "ok":
        return "GMP ABI encoding failed for %s" % (r["in"],)
    for k in ("dec", "unmarshal"):
        d = o[k]
        if d is None or d["r"] != "ok" or d["v"] != list(r["in"]):
            return "GMP ABI round trip (%s) changed the packet data: %s -> %s" % (k, r["in"], d)

def spec_abi_gmpack_rt(r):
    o = r["out"]
    p = _panics(o)
    if p:
        return "GMP acknowledgement ABI codec panicked in %s on %s" % (p, r["in"])
    if o["enc"]["r"] != "ok":
        return "GMP acknowledgement ABI encoding failed for %s" % (r["in"],)
    for k in ("dec", "unmarshal"):
        d = o[k]
        if d is None or d["r"] != "ok" or d["v"] != r["in"]:
            return "GMP acknowledgement ABI round trip (%s) changed the result: %s -> %s" % (k, r["in"], d)

def spec_stateatt_rt(r):
    o = r["out"]
    p = _panics(o)
    if p:
        return "state attestation ABI codec panicked in %s on %s" % (p, r["in"])
    h, ts = int(r["in"][0]), int(r["in"][1])
    if o["enc"]["r"] != "ok":
        return "state attestation ABI encoding failed for %s" % (r["in"],)
    # the ABI form carries whole seconds: representable values are those with ts % 1e9 == 0
    want = [str(h), str(ts - ts % NANOS)]
    d = o["dec"]
    if d is None or d["r"] != "ok" or d["v"] != want:
        return "state attestation round trip: (%d, %d) came back as %s (expected the timestamp truncated to whole seconds)" % (h, ts, d)

def _b32(h):
    b = _s(h)[:32]
    return (b + bytes(32 - len(b))).hex()

def spec_packetatt_rt(r):
    o = r["out"]
    p = _panics(o)
    if p:
        return "packet attestation ABI codec panicked in %s on %s" % (p, r["in"])
    if o["enc"]["r"] != "ok":
        return "packet attestation ABI encoding failed for %s" % (r["in"],)
    # paths/commitments are bytes32 in the ABI form: representable values are exactly 32 bytes long
    want = {"h": r["in"]["h"], "ps": [[_b32(a), _b32(c)] for a, c in r["in"]["ps"]]}
    d = o["dec"]
    if d is None or d["r"] != "ok" or d["v"] != want:
        return "packet attestation round trip: %s came back as %s" % (r["in"], d)

def _py_abi_dyn_tuple(fields):
    """Solidity ABI encoding of one tuple argument whose fields are all string/bytes (independent reference)"""
    def w(n): return n.to_bytes(32, "big")
    tails = [w(len(f)) + f + bytes((-len(f)) % 32) for f in fields]
    head = b""; off = 32 * len(fields)
    for t in tails:
        head += w(off); off += len(t)
    return w(32) + head + b"".join(tails)

def spec_gmp_dec(what, fields_of):
    def f(r):
        o = r["out"]
        p = _panics(o)
        if p:
            return "%s decoding panicked in %s on bytes %s" % (what, p, r["in"])
        u = o["unmarshal"]
        if u["r"] == "ok" and _py_abi_dyn_tuple(fields_of(u["v"])).hex() != r["in"]:
            return "%s: the unmarshaller (which re-marshals and compares) accepted bytes that are not the encoding of the value it returned: %s -> %s" % (what, r["in"], u["v"])
        if u["r"] == "ok" and (o["dec"]["r"] != "ok" or o["dec"]["v"] != u["v"]):
            return "%s: unmarshal and decode disagree on %s" % (what, r["in"])
    return f

def _k35(enc, spec):
    return dict(props=["C35"], enc=(lambda f: (lambda rec: "K35 (%s)" % f(rec)))(enc), spec=spec, exact=True)

KINDS.update({
    "abi_ftpd_rt": _k35(enc_abi_ftpd_rt, spec_abi_ftpd_rt),
    "abi_ftpd_dec": _k35(enc_abi_ftpd_dec, spec_dec_nopanic("ICS-20 ABI")),
    "proto_ftpd_rt": _k35(enc_proto_ftpd_rt, spec_proto_ftpd_rt),
    "proto_ftpd_dec": _k35(enc_proto_ftpd_dec, spec_proto_ftpd_dec),
    "abi_gmp_rt": _k35(enc_abi_gmp_rt, spec_abi_gmp_rt),
    "abi_gmp_dec": _k35(enc_abi_gmp_dec, spec_gmp_dec("GMP packet data ABI", lambda v: [_s(x) for x in v])),
    "abi_gmpack_rt": _k35(enc_abi_gmpack_rt, spec_abi_gmpack_rt),
    "abi_gmpack_dec": _k35(enc_abi_gmpack_dec, spec_gmp_dec("GMP acknowledgement ABI", lambda v: [_s(v)])),
    "abi_stateatt_rt": _k35(enc_stateatt_rt, spec_stateatt_rt),
    "abi_stateatt_dec": _k35(enc_stateatt_dec, spec_dec_nopanic("state attestation ABI")),
    "abi_packetatt_rt": _k35(enc_packetatt_rt, spec_packetatt_rt),
    "abi_packetatt_dec": _k35(enc_packetatt_dec, spec_dec_nopanic("packet attestation ABI")),
})

# ---- kinds kept in separate files under harness/codec (merged here) --------------------------------
def _load(fname):
    p = os.path.join(os.path.dirname(os.path.dirname(os.path.dirname(os.path.abspath(__file__)))), "harness", "codec", fname)
    spec = importlib.util.spec_from_file_location(fname[:-3], p)
    m = importlib.util.module_from_spec(spec)
    spec.loader.exec_module(m)
    if hasattr(m, "hx"):
        m.hx = hx      # same packed byte-string literals for the sub-files' encoders
    return m

def _wrap(ctor, f):
    return lambda rec: "%s (%s)" % (ctor, f(rec))

def _merge(fname, kinds_attr, known_attr, ctor):
    m = _load(fname)
    for k, d in getattr(m, kinds_attr).items():
        d = dict(d)
        d["enc"] = _wrap(ctor, d["enc"])
        KINDS[k] = d
    KNOWN.update(getattr(m, known_attr, {}))

_merge("c35json_kinds.py", "KINDS35J", "KNOWN35J", "K35J")
_merge("c47_kinds.py", "KINDS47", "KNOWN47", "K47")
