"""`ics20` family: 3 chains (ibctesting), transfer channels A-B, B-C, C-A; histories of MsgTransfer (v1 and
v2-over-alias), direct v2 sends, relays in any order, acks, timeouts, bank sends, params changes.
Encoder: history -> Corr.Ics20.Hist.  Monitors: the property texts evaluated on the recorded balances only
(no call into the model)."""
import hashlib, re
from lib.coqgen import N, Z, b, hx, opt, lst

NAME = "ics20"
GO_PKG = "./ics20"
COQ_IMPORTS = ("From IBC Require Import Lib.Bytes Lib.CorrLib Transfer.DenomLocal Transfer.Bank "
               "Transfer.Keeper Transfer.World Corr.Ics20.")
CASE_TYPE = "Case"
CHECK = "check"

# ------------------------------------------------------------------------------------------- encoding

def shex(s):
    return s.encode().hex()

def acct(a):
    t = a[0]
    if t == "u":
        return "(User %s)" % N(a[1])
    if t == "e":
        return "(Escrow %s)" % hx(shex(a[1]))
    if t == "mt":
        return "ModTransfer"
    if t == "mb":
        return "(ModBlocked %s)" % N(a[1])
    raise ValueError("account %r" % (a,))

def coin(c):
    if c[0] == "n":
        return "(CNat %s)" % hx(c[1])
    if c[0] == "v":
        return "(CIbc %s)" % hx(c[1])
    raise ValueError("coin %r" % (c,))

def addr(a):
    if a[0] == "ok":
        return "(AOk %s)" % acct(a[1])
    if a[0] == "bad":
        return "(ABad %s)" % N(a[1])
    if a[0] == "blank":
        return "ABlank"
    raise ValueError("addr %r" % (a,))

def akey(a):
    return tuple(a)

def ckey(c):
    return (c[0], c[1])          # the ibc/HASH text is not part of the identity

def nat(x):
    return "%d%%nat" % int(x)

def chain_channels(links, c):
    out = []
    for (ca, cha, cb, chb) in links:
        if ca == c:
            out.append(cha)
        if cb == c:
            out.append(chb)
    return out

def peer_of(links, c, ch):
    for (ca, cha, cb, chb) in links:
        if ca == c and cha == ch:
            return (cb, chb)
        if cb == c and chb == ch:
            return (ca, cha)
    return None

def cpath_hex(c):
    return c[1]

def _paths_of(rec):
    """every denomination path that may be hashed in this history: names of native denominations, voucher
    paths, packet paths, each also behind one hop of every channel id"""
    inp = rec["in"]
    base = set()
    def see(st):
        for cs in st:
            for (a, d, _) in cs["bal"]:
                base.add(d[1])
            for (d, _) in cs["sup"]:
                base.add(d[1])
    see(inp["init"])
    for ob in rec["out"]:
        see(ob["state"])
    for o in inp["ops"]:
        if "coin" in o:
            base.add(o["coin"][1])
        if "path" in o:
            base.add(o["path"])
    chans = set()
    for (ca, cha, cb, chb) in inp["links"]:
        chans.add(cha); chans.add(chb)
    out = set(base)
    for ch in chans:
        for p in base:
            out.add(shex("transfer/" + ch + "/") + p)
    return out


def normalize(rec):
    """An ibc/HASH denomination whose hash is not in the chain's denom store (a voucher minted by a refund,
    finding F5a) is reported raw; give it the structural form when HASH is the SHA-256 of a path of the history."""
    if rec.get("_norm"):
        return rec
    table = None
    def fix(d):
        nonlocal table
        if d[0] == "n":
            try:
                nm = bytes.fromhex(d[1]).decode("latin1")
            except ValueError:
                return d
            if nm.startswith("ibc/"):
                if table is None:
                    table = {"ibc/" + hashlib.sha256(bytes.fromhex(p)).hexdigest().upper(): p for p in _paths_of(rec)}
                if nm in table:
                    return ["v", table[nm], nm]
        return d
    def fix_state(st):
        for cs in st:
            cs["bal"] = [[a, fix(d), v] for (a, d, v) in cs["bal"]]
            cs["sup"] = [[fix(d), v] for (d, v) in cs["sup"]]
            cs["esc"] = [[fix(d), v] for (d, v) in cs["esc"]]
    fix_state(rec["in"]["init"])
    for ob in rec["out"]:
        fix_state(ob["state"])
    for o in rec["in"]["ops"]:
        if "coin" in o:
            o["coin"] = fix(o["coin"])
    rec["_norm"] = True
    return rec


def domains(rec):
    """per chain: (accounts, coins) — tracked accounts and every denomination that occurs or that a correct
    chain would create for the sends of the history"""
    inp = rec["in"]; n = inp["nchains"]; links = inp["links"]
    accts = [dict() for _ in range(n)]
    coins = [dict() for _ in range(n)]
    for c in range(n):
        for u in range(4 * n):
            accts[c][("u", u)] = ["u", u]
        for ch in chain_channels(links, c):
            accts[c][("e", ch)] = ["e", ch]
        accts[c][("mt",)] = ["mt"]
        accts[c][("mb", 0)] = ["mb", 0]
    def see_state(st):
        for c, cs in enumerate(st):
            for (a, d, _) in cs["bal"]:
                accts[c].setdefault(akey(a), a); coins[c].setdefault(ckey(d), d)
            for (d, _) in cs["sup"]:
                coins[c].setdefault(ckey(d), d)
            for (d, _) in cs["esc"]:
                coins[c].setdefault(ckey(d), d)
    see_state(inp["init"])
    for ob in rec["out"]:
        see_state(ob["state"])
    for o in inp["ops"]:
        k = o["op"]
        if k in ("transfer", "banksend"):
            c = o["chain"]
            coins[c].setdefault(ckey(o["coin"]), o["coin"])
            if k == "banksend":
                for a in (o["from"], o["to"]):
                    accts[c].setdefault(akey(a), a)
        if k in ("transfer", "sendv2"):
            c = o["chain"]
            p = cpath_hex(o["coin"]) if k == "transfer" else o["path"]
            pr = peer_of(links, c, o["chan"])
            if pr is not None:
                pc, pch = pr
                v = ["v", shex("transfer/" + pch + "/") + p]
                coins[pc].setdefault(ckey(v), v)
                pre = shex("transfer/" + o["chan"] + "/")
                if p.startswith(pre) and len(p) > len(pre):
                    rest = p[len(pre):]
                    for cand in (["n", rest], ["v", rest]):
                        coins[pc].setdefault(ckey(cand), cand)
            for s in (o["sender"], o["receiver"]):
                if s[0] == "ok":
                    for cc in range(n):
                        if s[1][0] != "e":
                            accts[cc].setdefault(akey(s[1]), s[1])
    return [(list(accts[c].values()), list(coins[c].values())) for c in range(n)]

def enc_chain_obs(cs, dom):
    accs, cns = dom
    bal = {}
    for (a, d, v) in cs["bal"]:
        bal[(akey(a), ckey(d))] = int(v)
    sup = {ckey(d): int(v) for (d, v) in cs["sup"]}
    esc = {ckey(d): int(v) for (d, v) in cs["esc"]}
    rows = lst(accs, lambda a: lst(cns, lambda d: Z(bal.get((akey(a), ckey(d)), 0))))
    return "(mkCO %s %s %s %s %s)" % (rows, lst(cns, lambda d: Z(sup.get(ckey(d), 0))),
                                       lst(cns, lambda d: Z(esc.get(ckey(d), 0))), b(cs["send"]), b(cs["recv"]))

OUT = {"ok": "OOk", "errack": "OErrAck", "fail": "OFail", "panic": "OPanic"}

def enc_op(o):
    k = o["op"]
    if k == "transfer":
        return "(OTransfer %s %s %s %s %s %s %s %s %s)" % (
            N(o["chain"]), acct(o["signer"]), b(o.get("authz", False)), hx(shex(o["chan"])), coin(o["coin"]),
            Z(o["amt"]), addr(o["sender"]), addr(o["receiver"]), b(o["alias"]))
    if k == "sendv2":
        return "(OSendV2 %s %s %s (mkPD %s %s %s %s))" % (
            N(o["chain"]), acct(o["signer"]), hx(shex(o["chan"])), hx(o["path"]), Z(o["amt"]),
            addr(o["sender"]), addr(o["receiver"]))
    if k == "recv":
        return "(ORecv %s %s %s)" % (nat(o["pkt"]), acct(o["relayer"]), b(o["elapsed"]))
    if k == "ack":
        return "(OAck %s %s)" % (nat(o["pkt"]), acct(o["relayer"]))
    if k == "timeout":
        return "(OTimeout %s %s %s)" % (nat(o["pkt"]), acct(o["relayer"]), b(o["elapsed"]))
    if k == "banksend":
        return "(OBankSend %s %s %s %s %s)" % (N(o["chain"]), acct(o["from"]), acct(o["to"]), coin(o["coin"]), Z(o["amt"]))
    if k == "params":
        return "(OSetParams %s %s %s)" % (N(o["chain"]), b(o["send"]), b(o["recv"]))
    raise ValueError("op %r" % (k,))

RECV = {0: "None", 1: "(Some true)", 2: "(Some false)"}

def enc_hist(rec):
    rec = normalize(rec)
    inp = rec["in"]
    doms = domains(rec)
    links = lst(inp["links"], lambda l: "(mkLink %s %s %s %s)" % (N(l[0]), hx(shex(l[1])), N(l[2]), hx(shex(l[3]))))
    dm = lst(doms, lambda d: "(mkCD %s %s)" % (lst(d[0], acct), lst(d[1], coin)))
    init = lst(list(range(inp["nchains"])), lambda c: enc_chain_obs(inp["init"][c], doms[c]))
    steps = []
    for o, ob in zip(inp["ops"], rec["out"]):
        obs = "(mkObs %s %s %s %s)" % (
            OUT[ob["out"]], opt(ob.get("seq"), N),
            lst(list(range(inp["nchains"])), lambda c: enc_chain_obs(ob["state"][c], doms[c])),
            lst(ob["pk"], lambda p: "(%s, %s)" % (b(p[0]), RECV[int(p[1])])))
        steps.append("(%s, %s)" % (enc_op(o), obs))
    if len(inp["ops"]) != len(rec["out"]):
        raise ValueError("ops/out length mismatch")
    return "Hist %s %s %s [%s]" % (links, dm, init, ";\n    ".join(steps))

def enc_extract(rec):
    o = rec["out"]
    return "ExtractC %s %s %s %s %s" % (hx(rec["in"]), lst(o["trace"], lambda h: "(%s, %s)" % (hx(h[0]), hx(h[1]))),
                                        hx(o["base"]), hx(o["path"]), b(o["valid"]))

def enc_idfmt(rec):
    return "IdFmt %s %s %s" % (hx(rec["in"]), b(rec["out"][0]), b(rec["out"][1]))

# ------------------------------------------------------------------------------- denomination helpers
# (independent re-implementation, used by the monitors and the known-finding matcher only)

U64 = 1 << 64
_CH = re.compile(r"^channel-[0-9]{1,20}$")
_CL = re.compile(r"^\w+([\w-]+\w)?-[0-9]{1,20}$", re.ASCII)

def is_chan_or_client(s):
    if _CH.match(s) and "\n" not in s:
        return int(s[len("channel-"):]) < U64
    if s == "09-localhost":
        return True
    if _CL.match(s) and "\n" not in s:
        return int(s.rsplit("-", 1)[1]) < U64
    return False

def parses_with_trace(name):
    """ExtractDenomFromPath(name) has a non-empty trace: more than two segments and the second one has the
    channel or client identifier format"""
    seg = name.split("/")
    return len(seg) > 2 and is_chan_or_client(seg[1])

def hop_natives(rec):
    rec = normalize(rec)
    """names of native bank denominations in the history that parse with a non-empty trace"""
    out = set()
    sts = [rec["in"]["init"]] + [ob["state"] for ob in rec["out"]]
    for st in sts:
        for cs in st:
            for (d, _) in cs["sup"]:
                if d[0] == "n":
                    try:
                        nm = bytes.fromhex(d[1]).decode("latin1")
                    except ValueError:
                        continue
                    if parses_with_trace(nm):
                        out.add(nm)
    return out

def pstr(h):
    return bytes.fromhex(h).decode("latin1")

# ------------------------------------------------------------------------------------------- monitors

class View:
    """state tables of one history; index -1 is the initial state"""
    def __init__(self, rec):
        rec = normalize(rec)
        self.rec = rec
        self.inp = rec["in"]
        self.n = self.inp["nchains"]
        self.links = self.inp["links"]
        self.ops = self.inp["ops"]
        self.obs = rec["out"]
        self.states = [self._tab(self.inp["init"])] + [self._tab(ob["state"]) for ob in self.obs]
        # packets: id -> dict(op index, chain, chan, path hex, amt, sender, receiver)
        self.pk = []
        for i, (o, ob) in enumerate(zip(self.ops, self.obs)):
            if o["op"] in ("transfer", "sendv2") and ob["out"] == "ok":
                p = cpath_hex(o["coin"]) if o["op"] == "transfer" else o["path"]
                self.pk.append(dict(i=i, chain=o["chain"], chan=o["chan"], path=p, amt=int(o["amt"]),
                                    sender=o["sender"], receiver=o["receiver"], signer=o["signer"]))

    def _tab(self, st):
        out = []
        for cs in st:
            bal = {}
            for (a, d, v) in cs["bal"]:
                bal[(akey(a), ckey(d))] = int(v)
            out.append(dict(bal=bal, sup={ckey(d): int(v) for (d, v) in cs["sup"]},
                            esc={ckey(d): int(v) for (d, v) in cs["esc"]}))
        return out

    def st(self, i, c):            # state after op i (i = -1: initial)
        return self.states[i + 1][c]

    def coins(self, c):
        s = set()
        for st in self.states:
            s |= {k[1] for k in st[c]["bal"]} | set(st[c]["sup"]) | set(st[c]["esc"])
        return s

    def dbal(self, i, c):
        """balance changes made by op i on chain c"""
        a, bb = self.st(i - 1, c)["bal"], self.st(i, c)["bal"]
        return {k: bb.get(k, 0) - a.get(k, 0) for k in set(a) | set(bb) if bb.get(k, 0) != a.get(k, 0)}

    def dsup(self, i, c):
        a, bb = self.st(i - 1, c)["sup"], self.st(i, c)["sup"]
        return {k: bb.get(k, 0) - a.get(k, 0) for k in set(a) | set(bb) if bb.get(k, 0) != a.get(k, 0)}

    def desc(self, i, c):
        a, bb = self.st(i - 1, c)["esc"], self.st(i, c)["esc"]
        return {k: bb.get(k, 0) - a.get(k, 0) for k in set(a) | set(bb) if bb.get(k, 0) != a.get(k, 0)}

    def pkflags(self, i, k):
        """(committed, recv) of packet k after op i; None when the packet does not exist yet"""
        if i < 0:
            return None
        l = self.obs[i]["pk"]
        return (bool(l[k][0]), int(l[k][1])) if k < len(l) else None


def outside_credit(v, j):
    """(chain, escrow channel, coin key, amount) credited by op j to an escrow account *as a recipient*
    (bank send to it, or a received packet naming it as receiver) - the property lets these only raise
    the balance side; None otherwise"""
    o = v.ops[j]; ob = v.obs[j]
    if ob["out"] != "ok":
        return None
    if o["op"] == "banksend" and o["to"][0] == "e":
        return (o["chain"], o["to"][1], ckey(o["coin"]), int(o["amt"]))
    if o["op"] == "recv":
        p = v.pk[o["pkt"]]
        r = p["receiver"]
        if r[0] == "ok" and r[1][0] == "e":
            dc, dch = peer_of(v.links, p["chain"], p["chan"])
            pre = shex("transfer/" + p["chan"] + "/")
            if p["path"].startswith(pre):
                rest = p["path"][len(pre):]
                d = ("v", rest) if parses_with_trace(pstr(rest)) else ("n", rest)
            else:
                d = ("v", shex("transfer/" + dch + "/") + p["path"])
            return (dc, r[1][1], d, p["amt"])
    return None


def viol(text, *paths):
    return dict(text=text, paths=[p for p in paths if p is not None])


def mon_c30(v):
    """conservation per channel and denomination after every op; native supply constant; per-op balance
    changes of every denomination sum to the supply change"""
    out = []
    v.outside = [outside_credit(v, j) for j in range(len(v.ops))]
    # what each packet actually debited at send time (observed): ("esc", coin) or ("burn", coin)
    for p in v.pk:
        c, i = p["chain"], p["i"]
        ds, db = v.dsup(i, c), v.dbal(i, c)
        p["mode"] = None
        for (a, d), x in db.items():
            if a == ("e", p["chan"]) and x == p["amt"]:
                p["mode"] = ("esc", d)
        for d, x in ds.items():
            if x == -p["amt"]:
                p["mode"] = ("burn", d)
    for i in range(-1, len(v.ops)):
        for c in range(v.n):
            st = v.st(i, c)
            if i >= 0:
                for d, x in v.dsup(i, c).items():
                    if d[0] == "n":
                        out.append(viol("op %d changed the supply of native %r on chain %d by %d" % (i, pstr(d[1]), c, x), pstr(d[1])))
                tot = {}
                for (a, d), x in v.dbal(i, c).items():
                    tot[d] = tot.get(d, 0) + x
                ds = v.dsup(i, c)
                for d in set(tot) | set(ds):
                    if tot.get(d, 0) != ds.get(d, 0):
                        out.append(viol("op %d on chain %d: balances of %r change by %d in total but supply by %d"
                                        % (i, c, pstr(d[1]), tot.get(d, 0), ds.get(d, 0)), pstr(d[1])))
        for (ca, cha, cb, chb) in v.links:
            for (A, chA, Bc, chB) in ((ca, cha, cb, chb), (cb, chb, ca, cha)):
                coinsA = set(v.coins(A))
                pre = shex("transfer/" + chB + "/")
                for vc in v.coins(Bc):
                    if vc[0] == "v" and vc[1].startswith(pre):
                        rest = vc[1][len(pre):]
                        if ("n", rest) not in coinsA and ("v", rest) not in coinsA:
                            coinsA.add(("v", rest) if parses_with_trace(pstr(rest)) else ("n", rest))
                for d in coinsA:
                    vk = ("v", pre + d[1])
                    escrow = v.st(i, A)["bal"].get((("e", chA), d), 0)
                    vsup = v.st(i, Bc)["sup"].get(vk, 0)
                    fwd = bwd = don = 0
                    for k, p in enumerate(v.pk):
                        fl = v.pkflags(i, k)
                        if fl is None or p["i"] > i:
                            continue
                        pending = fl[0] and fl[1] != 1
                        if pending and p["chain"] == A and p["chan"] == chA and p["mode"] == ("esc", d):
                            fwd += p["amt"]
                        if pending and p["chain"] == Bc and p["chan"] == chB and p["mode"] == ("burn", vk):
                            bwd += p["amt"]
                    for j in range(0, i + 1):
                        oc = v.outside[j]
                        if oc is not None and oc[0] == A and oc[1] == chA and oc[2] == d:
                            don += oc[3]
                    if escrow != vsup + fwd + bwd + don:
                        out.append(viol(
                            "after op %d: chain %d escrow(%s) holds %d of %r but vouchers on chain %d = %d, in flight out = %d, in flight back = %d, bank-sent into escrow = %d"
                            % (i, A, chA, escrow, pstr(d[1]), Bc, vsup, fwd, bwd, don), pstr(d[1]), pstr(vk[1])))
    return out


def mon_c31(v):
    out = []
    for i in range(-1, len(v.ops)):
        for c in range(v.n):
            st = v.st(i, c)
            ecoins = set(st["esc"]) | {k[1] for k in st["bal"] if k[0][0] == "e"}
            for d in ecoins:
                tot = st["esc"].get(d, 0)
                held = sum(x for (a, dd), x in st["bal"].items() if a[0] == "e" and dd == d)
                if tot < 0 or tot > held:
                    out.append(viol("after op %d: chain %d total escrow of %r is %d, escrow accounts hold %d" % (i, c, pstr(d[1]), tot, held), pstr(d[1])))
            if i >= 0:
                de = v.desc(i, c)
                db = {}
                for (a, d), x in v.dbal(i, c).items():
                    if a[0] == "e":
                        db[d] = db.get(d, 0) + x
                oc = outside_credit(v, i)
                for d in set(de) | set(db):
                    want = db.get(d, 0)
                    if oc is not None and oc[0] == c and oc[2] == d:
                        want -= oc[3]
                    if de.get(d, 0) != want:
                        out.append(viol("op %d (%s) on chain %d: total escrow of %r changed by %d, escrow balances by %d"
                                        % (i, v.ops[i]["op"], c, pstr(d[1]), de.get(d, 0), db.get(d, 0)), pstr(d[1])))
    return out


def chain_delta(v, i, c):
    return (v.dbal(i, c), v.dsup(i, c))


def mon_c32(v):
    out = []
    for k, p in enumerate(v.pk):
        c = p["chain"]
        send_db, send_ds = chain_delta(v, p["i"], c)
        refunded = 0
        for j in range(p["i"] + 1, len(v.ops)):
            o = v.ops[j]
            if o["op"] not in ("ack", "timeout") or o["pkt"] != k:
                continue
            before = v.pkflags(j - 1, k)
            ok = v.obs[j]["out"] == "ok"
            db, ds = chain_delta(v, j, c)
            pth = pstr(p["path"])
            if not before[0]:
                # terminal outcome already happened: must be a no-op
                if ok or db or ds:
                    out.append(viol("op %d: packet %d handled again after its terminal outcome (out=%s, balance changes %s)" % (j, k, v.obs[j]["out"], db), pth))
                continue
            if o["op"] == "ack":
                if before[1] == 0:
                    if ok or db or ds:
                        out.append(viol("op %d: acknowledgement accepted for packet %d that was never received" % (j, k), pth))
                    continue
                if before[1] == 1:
                    if db or ds:
                        out.append(viol("op %d: success ack of packet %d changed balances on the sending chain: %s %s" % (j, k, db, ds), pth))
                    continue
                want_refund = True
            else:
                want_refund = bool(o["elapsed"]) and before[1] == 0
                if not want_refund:
                    if ok or db or ds:
                        out.append(viol("op %d: timeout of packet %d accepted although not timed out / already received" % (j, k), pth))
                    continue
            # a refund is due at this step
            if not ok:
                out.append(viol("op %d: %s of packet %d (%d of %r) could not be processed: the sender is never refunded"
                                % (j, o["op"], k, p["amt"], pth), pth))
                continue
            refunded += 1
            inv_b = {kk: -x for kk, x in send_db.items()}
            inv_s = {kk: -x for kk, x in send_ds.items()}
            if db != inv_b or ds != inv_s:
                out.append(viol("op %d: refund of packet %d (%d of %r): send changed %s / supply %s, refund changed %s / supply %s"
                                % (j, k, p["amt"], pth, fmt_delta(send_db), fmt_delta(send_ds), fmt_delta(db), fmt_delta(ds)), pth))
        if refunded > 1:
            out.append(viol("packet %d refunded %d times" % (k, refunded), pstr(p["path"])))
    return out


def fmt_delta(d):
    items = []
    for k, x in sorted(d.items(), key=repr):
        if isinstance(k[0], tuple):
            items.append("%s:%s %+d" % ("/".join(str(z) for z in k[0]), pstr(k[1][1]), x))
        else:
            items.append("%s %+d" % (pstr(k[1]), x))
    return "{" + ", ".join(items) + "}"


def mon_c49(v):
    out = []
    for i, (o, ob) in enumerate(zip(v.ops, v.obs)):
        for c in range(v.n):
            for (a, d), x in v.dbal(i, c).items():
                if a[0] != "u":
                    continue
                if x < 0:
                    okd = (o["op"] in ("transfer", "sendv2", "banksend") and o["chain"] == c and
                           akey(o.get("signer", o.get("from"))) == a)
                    if o["op"] == "transfer" and o.get("authz") and o["sender"][0] == "ok" and akey(o["sender"][1]) == a:
                        okd = True
                    if not okd:
                        out.append(viol("op %d (%s): balance of user %d on chain %d fell by %d of %r without that account signing"
                                        % (i, o["op"], a[1], c, -x, pstr(d[1])), pstr(d[1])))
                if x > 0 and o["op"] in ("recv", "ack", "timeout"):
                    p = v.pk[o["pkt"]]
                    if o["op"] == "recv":
                        want = p["receiver"]; where = peer_of(v.links, p["chain"], p["chan"])[0]
                    else:
                        want = p["sender"]; where = p["chain"]
                    if not (want[0] == "ok" and akey(want[1]) == a and c == where):
                        out.append(viol("op %d (%s of packet %d relayed by %s): user %d on chain %d was credited %d of %r but is not the packet's %s"
                                        % (i, o["op"], o["pkt"], o["relayer"], a[1], c, x, pstr(d[1]),
                                           "receiver" if o["op"] == "recv" else "sender"), pstr(d[1])))
            if o["op"] in ("transfer", "sendv2") and ob["out"] == "ok":
                s = o["sender"]
                if not (s[0] == "ok" and (akey(s[1]) == akey(o["signer"]) or o.get("authz"))):
                    out.append(viol("op %d: send accepted with sender %s signed by %s" % (i, s, o["signer"])))
    return out


MON = {"C30": mon_c30, "C31": mon_c31, "C32": mon_c32, "C49": mon_c49}


def check_voucher_hashes(rec):
    rec = normalize(rec)
    """the harness reports every ibc/ denomination with the path stored under its hash: re-check the hash"""
    sts = [rec["in"]["init"]] + [ob["state"] for ob in rec["out"]]
    for st in sts:
        for cs in st:
            for (d, _) in cs["sup"]:
                if d[0] == "v":
                    want = "ibc/" + hashlib.sha256(bytes.fromhex(d[1])).hexdigest().upper()
                    if d[2] != want:
                        return "voucher %s is reported with path %r whose hash is %s" % (d[2], pstr(d[1]), want)
    return None


def violations(rec, pid):
    v = View(rec)
    return MON[pid](v)


def spec_hist(rec, pid):
    bad = check_voucher_hashes(rec)
    if bad:
        return bad
    vs = violations(rec, pid)
    if vs:
        return vs[0]["text"] + (" (+%d more)" % (len(vs) - 1) if len(vs) > 1 else "")
    return None


def f5a_shaped(rec, vio):
    """the violation involves a native denomination whose name parses with a non-empty trace"""
    names = hop_natives(rec)
    for p in vio["paths"]:
        for nm in names:
            if p == nm or p.endswith("/" + nm):
                return True
    return False


def known_f5a(rec):
    if rec.get("k") != "hist":
        return False
    if not hop_natives(rec):
        return False
    for pid in ("C30", "C32"):
        for vio in violations(rec, pid):
            if not f5a_shaped(rec, vio):
                return False
    return True


def nontrivial_hist(rec):
    return any(o["op"] in ("transfer", "sendv2") and ob["out"] == "ok" for o, ob in zip(rec["in"]["ops"], rec["out"]))


# -- extract / idfmt monitors: the Go functions against an independent reading of the documented behaviour

def spec_extract(rec):
    s = pstr(rec["in"])
    o = rec["out"]
    seg = s.split("/")
    trace = []
    i = 0
    if len(seg) == 1:
        base = s
    else:
        while True:
            if i < len(seg) - 1 and len(seg) > 2 and is_chan_or_client(seg[i + 1]):
                trace.append([seg[i], seg[i + 1]]); i += 2
                if i >= len(seg):
                    base = ""; break
            else:
                base = "/".join(seg[i:]); break
    got = [[pstr(h[0]), pstr(h[1])] for h in o["trace"]]
    if got != trace or pstr(o["base"]) != base:
        return "ExtractDenomFromPath(%r) = (%s, %r), expected (%s, %r)" % (s, got, pstr(o["base"]), trace, base)
    if o["valid"] and pstr(o["path"]) != s:
        return "Path(ExtractDenomFromPath(%r)) = %r for a valid denom" % (s, pstr(o["path"]))
    return None


def spec_idfmt(rec):
    s = pstr(rec["in"])
    ch = bool(_CH.match(s)) and "\n" not in s and int(s[8:]) < U64
    cl = s == "09-localhost" or (bool(_CL.match(s)) and "\n" not in s and int(s.rsplit("-", 1)[1]) < U64)
    if [ch, cl] != list(rec["out"]):
        return "IsValidChannelID/IsValidClientID(%r) = %s, the documented formats give %s" % (s, rec["out"], [ch, cl])
    return None


ALLP = ["C30", "C31", "C32", "C49"]
KINDS = {
    "hist": dict(props=ALLP, enc=enc_hist, spec=spec_hist, spec_takes_pid=True, exact=True, nontrivial=nontrivial_hist),
    "extract": dict(props=["C30", "C32"], enc=enc_extract, spec=spec_extract, exact=True),
    "idfmt": dict(props=["C30", "C32"], enc=enc_idfmt, spec=spec_idfmt, exact=True),
}

KNOWN = {"F5a": known_f5a}
