"""`tmverify` family: 07-tendermint status / gates / recovery / upgrade histories (C21, C25) and header /
misbehaviour verification cases (C24), driven on real ibctesting chains."""
from lib.coqgen import N, Z, b, hx, opt, lst, height

NAME = "tmverify"
GO_PKG = "./tmverify"
COQ_IMPORTS = ("From IBC Require Import Lib.Bytes Lib.Dec Lib.CorrLib Core.Height TmVerify.Util TmVerify.World "
               "TmVerify.Light TmVerify.Writes Corr.TmVerify.")
CASE_TYPE = "Case"
CHECK = "check"

# ------------------------------------------------------------------------------------------- encoders

class Short:
    """injective renaming of 32-byte hashes to short byte strings (per record) to keep terms small"""
    def __init__(self):
        self.m = {}
    def __call__(self, h):
        if h is None:
            return hx("")
        if len(h) != 64:
            return hx(h)
        if h not in self.m:
            self.m[h] = ("#%d" % len(self.m)).encode().hex()
        return hx(self.m[h])

def optZ(x):
    return "None" if x is None else "(Some %s)" % Z(x)

def cons_term(c, sh):
    return "(mkCS %s %s %s %s %s)" % (Z(c["ts"]), sh(c["root"]), sh(c["nvh"]), optZ(c.get("pt")), opt(c.get("ph"), height))

def client_term(c, sh):
    cons = lst(c.get("cons") or [], lambda e: "(%s, %s)" % (height(e["h"]), cons_term(e, sh)))
    return "(mkClient %s %s %s %s %s %s %s %s %s %s %s)" % (
        hx(c.get("chain", "")), N(c["tl"][0]), N(c["tl"][1]), Z(c["tp"]), Z(c["ub"]), Z(c["dr"]),
        height(c["fz"]), height(c["lt"]), hx(c["specs"]), lst(c["up"], hx), cons)

STATUS = {"Active": "Active", "Frozen": "Frozen", "Expired": "Expired", "Unknown": "Unknown"}
RES = {"ok": "Ok", "err": "Err", "panic": "Panic"}

def msg_term(m, sh):
    if m["k"] == "hdr":
        return "(MHeader %s %s %s %s %s %s)" % (height(m["tr"]), height(m["h"]), Z(m["ts"]), sh(m["root"]), sh(m["nvh"]), b(m["v"]))
    return "(MMisb %s %s %s %s %s %s %s)" % (height(m["h1"]), height(m["h2"]), sh(m["bh1"]), sh(m["bh2"]), Z(m["t1"]), Z(m["t2"]), b(m["v"]))

def op_term(o, sh):
    k = o["op"]
    if k == "adv":
        return "(OAdvance %s %s)" % (Z(o["dt"]), N(o["dh"]))
    if k == "upd":
        return "(OUpdate %s %s)" % (N(o["c"]), msg_term(o["m"], sh))
    if k == "vmem":
        return "(OVerifyMem %s %s %s %s %s)" % (N(o["c"]), height(o["h"]), hx(o["p"]), lst(o["path"], hx), sh(o["val"]))
    if k == "vnon":
        return "(OVerifyNonMem %s %s %s %s)" % (N(o["c"]), height(o["h"]), hx(o["p"]), lst(o["path"], hx))
    if k == "send":
        return "(OSend %s)" % N(o["c"])
    if k == "conn":
        return "(OConnInit %s)" % N(o["c"])
    if k == "chan":
        return "(OChanInit %s)" % N(o["c"])
    if k == "rec":
        return "(ORecover %s %s)" % (N(o["s"]), N(o["t"]))
    if k == "upg":
        return "(OUpgrade %s (mkUR %s %s %s %s))" % (N(o["c"]), client_term(o["uc"], sh), cons_term(o["ucs"], sh), hx(o["pc"]), hx(o["ps"]))
    raise ValueError("unknown op " + k)

def enc_hist(r):
    sh = Short()
    i, o = r["in"], r["out"]
    w0 = i["w0"]
    cls = []
    for c in w0["clients"]:
        if c["ty"] == "tm":
            cls.append("(%s, Tm %s)" % (N(c["id"]), client_term(c, sh)))
        elif c["ty"] == "other":
            cls.append("(%s, Other (hx \"\"))" % N(c["id"]))
    world = "(mkW %s %s [%s])" % (Z(w0["now"]), height(w0["self"]), "; ".join(cls))
    mem = lst(i["mem"] or [], lambda x: "(%s, %s, %s, %s, %s)" % (hx(x[0]), hx(x[1]), sh(x[2]), lst(x[3], hx), sh(x[4])))
    non = lst(i["non"] or [], lambda x: "(%s, %s, %s, %s)" % (hx(x[0]), hx(x[1]), sh(x[2]), lst(x[3], hx)))
    encc = lst(i["encc"] or [], lambda x: "(%s, %s)" % (client_term(x[0], sh), hx(x[1])))
    encs = lst(i["encs"] or [], lambda x: "(%s, %s)" % (cons_term(x[0], sh), hx(x[1])))
    ops = lst(i["ops"] or [], lambda x: op_term(x, sh))
    obs = lst(o["obs"] or [], lambda x: "(mkObs %s %s)" % (
        RES[x["res"]], lst(x["cl"], lambda c: "(%s, %s, %s, %s)" % (N(c[0]), STATUS[c[1]], height(c[2]), height(c[3])))))
    final = lst([c for c in o["final"] if c["ty"] == "tm"], lambda c: "(%s, %s)" % (N(c["id"]), client_term(c, sh)))
    return "Hist (mkTables %s %s %s %s) %s %s %s %s" % (mem, non, encc, encs, world, ops, obs, final)

def enc_chainid(r):
    isrev, rev, set7 = r["out"]
    return "ChainIdCase %s %s %s %s" % (hx(r["in"]), b(isrev), opt(rev, N), opt(set7, hx))

def enc_newtrusting(r):
    t, ou, nu = r["in"]
    return "NewTrusting %s %s %s %s" % (Z(t), Z(ou), Z(nu), optZ(r["out"]))

def enc_status(r):
    sh = Short()
    return "StatusCase %s %s %s" % (client_term(r["in"]["c"], sh), Z(r["in"]["now"]), STATUS[r["out"]])

def enc_match(r):
    sh = Short()
    return "MatchCase %s %s %s" % (client_term(r["in"][0], sh), client_term(r["in"][1], sh), b(r["out"]))

# ------------------------------------------------------------------------------------------- monitors
# independent re-evaluation of the property texts on what the implementation did

def hpair(h):
    return (int(h[0]), int(h[1]))

def status_formula(frozen, latest_ts, trusting, now):
    """C21: Frozen if frozen; else Expired if the latest consensus state is missing or older than the
    trusting period; else Active."""
    if hpair(frozen) != (0, 0):
        return "Frozen"
    if latest_ts is None:
        return "Expired"
    if int(latest_ts) + int(trusting) <= int(now):
        return "Expired"
    return "Active"

def full_status(c, now):
    lts = None
    for e in c["cons"]:
        if hpair(e["h"]) == hpair(c["lt"]):
            lts = e["ts"]
    return status_formula(c["fz"], lts, c["tp"], now)

USES = {"upd": "c", "vmem": "c", "vnon": "c", "send": "c", "conn": "c", "chan": "c", "upg": "c"}

def spec_hist_c21(r):
    i, o = r["in"], r["out"]
    now = int(i["w0"]["now"])
    # status and latest height of each tendermint client before the first operation
    cur = {}
    for c in i["w0"]["clients"]:
        if c["ty"] == "tm":
            st = full_status(c, now)
            cur[c["id"]] = dict(status=st, latest=hpair(c["lt"]))
    for k, (op, ob) in enumerate(zip(i["ops"], o["obs"])):
        # (a) no use succeeds through a client that is not Active at that moment
        if ob["res"] == "ok":
            if op["op"] in USES:
                cid = op[USES[op["op"]]]
                if cid in cur and cur[cid]["status"] != "Active":
                    return "op %d (%s) succeeded through client %s whose status was %s" % (k, op["op"], cid, cur[cid]["status"])
            if op["op"] == "rec":
                if op["t"] in cur and cur[op["t"]]["status"] != "Active":
                    return "op %d: recovery succeeded with substitute %s in status %s" % (k, op["t"], cur[op["t"]]["status"])
        # (b) reported status = the formula; (c) latest height never decreases
        for c in ob["cl"]:
            cid, st, lat, fro, lts, tp = c
            want = status_formula(fro, lts, tp, ob["now"])
            if st != want:
                return "after op %d client %s reports status %s; frozen=%s latestTs=%s trusting=%s now=%s require %s" % (
                    k, cid, st, fro, lts, tp, ob["now"], want)
            if cid in cur and hpair(lat) < cur[cid]["latest"]:
                return "op %d (%s) decreased the latest height of client %s from %s to %s" % (k, op["op"], cid, cur[cid]["latest"], hpair(lat))
            cur[cid] = dict(status=st, latest=hpair(lat))
    return None

def params(c):
    return (c["tl"], c["ub"], c["dr"], c["specs"], c["up"])

def cons_map(c):
    return {hpair(e["h"]): (e["ts"], e["root"], e["nvh"], e.get("pt"), e.get("ph")) for e in c["cons"]}

def by_id(cl):
    return {c["id"]: c for c in cl}

SENTINEL = b"sentinel_root".hex()

def spec_hist_c25(r):
    i, o = r["in"], r["out"]
    for k, (op, ob) in enumerate(zip(i["ops"], o["obs"])):
        if op["op"] not in ("rec", "upg"):
            continue
        pre, post = by_id(ob["pre"]), by_id(ob["post"])
        now = ob["now"]
        target = op["s"] if op["op"] == "rec" else op["c"]
        # neither operation changes any other client, successful or not
        for cid in pre:
            if cid != target and pre[cid] != post.get(cid):
                return "op %d (%s on client %s) changed client %s" % (k, op["op"], target, cid)
        if ob["res"] != "ok":
            if pre.get(target) != post.get(target):
                return "op %d (%s) failed but changed client %s" % (k, op["op"], target)
            continue
        if op["op"] == "rec":
            s, t = op["s"], op["t"]
            if s not in pre or t not in pre or pre[s]["ty"] != "tm" or pre[t]["ty"] != "tm":
                return "op %d: recovery succeeded although subject/substitute are not both tendermint clients" % k
            ps, pt, qs = pre[s], pre[t], post[s]
            if full_status(ps, now) == "Active":
                return "op %d: recovery succeeded on an Active subject" % k
            if full_status(pt, now) != "Active":
                return "op %d: recovery succeeded with a substitute in status %s" % (k, full_status(pt, now))
            if not hpair(ps["lt"]) < hpair(pt["lt"]):
                return "op %d: recovery succeeded with substitute height %s not above subject height %s" % (k, pt["lt"], ps["lt"])
            if params(ps) != params(pt):
                return "op %d: recovery succeeded with differing parameters %s vs %s" % (k, params(ps), params(pt))
            if hpair(qs["fz"]) != (0, 0):
                return "op %d: recovered subject still frozen" % k
            if qs["lt"] != pt["lt"]:
                return "op %d: recovered subject latest height %s, substitute %s" % (k, qs["lt"], pt["lt"])
            want = cons_map(pt).get(hpair(pt["lt"]))
            if cons_map(qs).get(hpair(pt["lt"])) != want:
                return "op %d: recovered subject does not hold the substitute's latest consensus state and metadata" % k
            its = {hpair(e["h"]): e.get("it") for e in qs["cons"]}
            if its.get(hpair(pt["lt"])) != ("consensusStates/%d-%d" % hpair(pt["lt"])).encode().hex():
                return "op %d: recovered subject has no iteration key for the copied height %s" % (k, pt["lt"])
            for h, v in cons_map(ps).items():
                if h != hpair(pt["lt"]) and cons_map(qs).get(h) != v:
                    return "op %d: recovery changed the subject's consensus state at %s" % (k, h)
            if set(cons_map(qs)) - set(cons_map(ps)) - {hpair(pt["lt"])}:
                return "op %d: recovery wrote extra consensus states" % k
            if params(qs) != params(ps) or qs["chain"] != pt["chain"] or qs["tp"] != pt["tp"]:
                return "op %d: recovered subject parameters wrong" % k
        else:
            c = op["c"]
            pc, qc, uc, ucs = pre[c], post[c], op["uc"], op["ucs"]
            if full_status(pc, now) != "Active":
                return "op %d: upgrade succeeded on a client in status %s" % (k, full_status(pc, now))
            if not hpair(uc["lt"]) > hpair(pc["lt"]):
                return "op %d: upgrade succeeded to height %s not above %s" % (k, uc["lt"], pc["lt"])
            # both proofs verified under the committed upgrade path at the latest consensus root
            if not pc["up"]:
                return "op %d: upgrade succeeded without an upgrade path" % k
            root = cons_map(pc)[hpair(pc["lt"])][1]
            def upath(leaf):
                last = bytes.fromhex(pc["up"][-1]) + b"/" + str(int(pc["lt"][1])).encode() + b"/" + leaf
                return pc["up"][:-1] + [last.hex()]
            rows = [(x[1], x[2], x[3], x[4]) for x in i["mem"]]
            if (op["pc"], root, upath(b"upgradedClient"), b"ZC".hex()) not in rows:
                return "op %d: upgrade succeeded but the client proof does not verify the zeroed client under %s at the latest root" % (k, upath(b"upgradedClient"))
            if (op["ps"], root, upath(b"upgradedConsState"), b"CS".hex()) not in rows:
                return "op %d: upgrade succeeded but the consensus-state proof does not verify under the upgrade path" % k
            if qc["tl"] != pc["tl"] or qc["dr"] != pc["dr"]:
                return "op %d: upgrade did not keep the client's trust level / clock drift" % k
            t, u, u2 = int(pc["tp"]), int(pc["ub"]), int(uc["ub"])
            if u2 < u:
                if 0 < u < 2 * 10**18 and t > 0 and u2 > 0 and int(qc["tp"]) != t * u2 // u:
                    return "op %d: trusting period after unbonding %d -> %d is %s, scaled value is %d" % (k, u, u2, qc["tp"], t * u2 // u)
            elif qc["tp"] != pc["tp"]:
                return "op %d: upgrade changed the trusting period although unbonding did not shrink" % k
            if (qc["chain"], qc["ub"], qc["lt"], qc["specs"], qc["up"]) != (uc["chain"], uc["ub"], uc["lt"], uc["specs"], uc["up"]):
                return "op %d: upgraded client does not carry the committed chain parameters" % k
            if hpair(qc["fz"]) != (0, 0):
                return "op %d: upgraded client frozen" % k
            got = cons_map(qc).get(hpair(uc["lt"]))
            if got is None or got[:3] != (ucs["ts"], SENTINEL, ucs["nvh"]):
                return "op %d: upgraded consensus state wrong: %s" % (k, got)
            for h, v in cons_map(pc).items():
                if h != hpair(uc["lt"]) and cons_map(qc).get(h) != v:
                    return "op %d: upgrade changed the consensus state at %s" % (k, h)
    return None

def spec_hist(r, pid):
    if pid == "C21":
        return spec_hist_c21(r)
    if pid == "C25":
        return spec_hist_c25(r)
    return None

def spec_status(r):
    c, now = r["in"]["c"], r["in"]["now"]
    want = full_status(c, now)
    if r["out"] != want:
        return "status %s for frozen=%s latest=%s trusting=%s now=%s; required %s" % (r["out"], c["fz"], c["lt"], c["tp"], now, want)

def spec_match(r):
    a, bb = r["in"]
    want = params(a) == params(bb)
    if r["out"] != want:
        return "IsMatchingClientState = %s for parameters %s / %s" % (r["out"], params(a), params(bb))

def spec_newtrusting(r):
    t, ou, nu = (int(x) for x in r["in"])
    if r["out"] is None:
        return None
    if 0 < t and 0 < nu < ou < 2 * 10**18 and int(r["out"]) != t * nu // ou:
        return "calculateNewTrustingPeriod(%d,%d,%d) = %s, scaled value is %d" % (t, ou, nu, r["out"], t * nu // ou)

def nontrivial_hist(r):
    return len(r["in"]["ops"]) > 0

KINDS = {
    "hist": dict(props=["C21", "C25"], enc=enc_hist, spec=spec_hist, spec_takes_pid=True, exact=False, nontrivial=nontrivial_hist),
    "status": dict(props=["C21"], enc=enc_status, spec=spec_status, exact=True),
    "chainid": dict(props=["C24", "C25"], enc=enc_chainid, spec=None, exact=False),
    "newtrusting": dict(props=["C25"], enc=enc_newtrusting, spec=spec_newtrusting, exact=False),
    "match": dict(props=["C25"], enc=enc_match, spec=spec_match, exact=True),
}

# ------------------------------------------------------------------------------------------- C24: light cases

class Ren:
    """injective renaming of public keys (32 bytes) and signatures (64 bytes): neither length is inspected
    for keys; signatures keep a length in 1..64"""
    def __init__(self):
        self.m = {}
    def pk(self, h):
        if len(h) != 64:
            return hx(h)
        return self._r("k", h)
    def sig(self, h):
        if len(h) != 128:
            return hx(h)
        return self._r("s", h)
    def _r(self, pre, h):
        if (pre, h) not in self.m:
            self.m[(pre, h)] = ("%s%d" % (pre, len(self.m))).encode().hex()
        return hx(self.m[(pre, h)])

def raw(h):
    return hx(h or "")

def bid_term(x):
    return "(mkBID %s %s %s)" % (hx(x[0]), N(x[1]), hx(x[2]))

def hdr_term(h):
    return "(mkHdr %s %s %s %s %s %s %s %s %s %s %s %s %s %s %s)" % (
        N(h["block"]), N(h["app"]), hx(h["chain"]), Z(h["height"]), Z(h["time"]), bid_term(h["last"]),
        hx(h["lastcommit"]), hx(h["data"]), hx(h["vals"]), hx(h["nextvals"]), hx(h["cons"]), hx(h["apphash"]),
        hx(h["results"]), hx(h["evidence"]), hx(h["proposer"]))

def val_term(v, rn):
    return "(mkVal %s %s %s)" % (hx(v["addr"]), rn.pk(v["pk"]), Z(v["power"]))

def valset_term(vs, rn):
    if vs is None:
        return "None"
    return "(Some (mkVS %s %s))" % (lst(vs["vals"], lambda v: val_term(v, rn)), opt(vs["prop"], lambda v: val_term(v, rn)))

def commit_term(c, rn):
    return "(mkCommit %s %s %s %s)" % (Z(c["height"]), Z(c["round"]), bid_term(c["bid"]),
                                       lst(c["sigs"], lambda x: "(mkSig %s %s %s %s)" % (N(x[0]), hx(x[1]), Z(x[2]), rn.sig(x[3]))))

def th_term(h, rn):
    return "(mkTH %s %s %s %s %s)" % (hdr_term(h["hdr"]), commit_term(h["commit"], rn), valset_term(h["vals"], rn),
                                      height(h["trusted"]), valset_term(h["tvals"], rn))

def ltables_term(t, rn):
    sigs = lst(t["sigs"] or [], lambda x: "(%s, %s, %s)" % (rn.pk(x[0]), hx(x[1]), rn.sig(x[2])))
    vh = lst(t["vhash"] or [], lambda x: "(%s, %s)" % (lst(x[0], lambda v: val_term(v, rn)), hx(x[1])))
    hh = lst(t["hhash"] or [], lambda x: "(%s, %s)" % (hdr_term(x[0]), hx(x[1])))
    ad = lst(t["addr"] or [], lambda x: "(%s, %s)" % (rn.pk(x[0]), hx(x[1])))
    return "(mkLT %s %s %s %s)" % (sigs, vh, hh, ad)

def enc_lheader(r):
    rn = Ren()
    i = r["in"]
    return "LightCase (LHeader %s %s %s %s %s %s)" % (ltables_term(i["tables"], rn), client_term(i["client"], raw), Z(i["now"]),
                                                     th_term(i["h"], rn), RES[r["out"][0]], RES[r["out"][1]])

def enc_lmisb(r):
    rn = Ren()
    i = r["in"]
    return "LightCase (LMisb %s %s %s %s %s %s %s %s)" % (ltables_term(i["tables"], rn), client_term(i["client"], raw), Z(i["now"]),
                                                         th_term(i["h1"], rn), th_term(i["h2"], rn), RES[r["out"][0]], RES[r["out"][1]], b(r["out"][2]))

# ---- monitors: the property text evaluated on the recorded structure ----
import re as _re
_REV = _re.compile(rb"^.*[^\n-]-{1}[1-9][0-9]*$")

def revision_of(chain_hex):
    s = bytes.fromhex(chain_hex)
    if not _REV.match(s):
        return 0
    return int(s.rsplit(b"-", 1)[1])

def set_revision(chain_hex, rev):
    s = bytes.fromhex(chain_hex)
    if not _REV.match(s):
        return chain_hex
    return (s.rsplit(b"-", 1)[0] + b"-" + str(rev).encode()).hex()

def real_vals_hash(tables, vs):
    if vs is None:
        return None
    for vals, h in tables["vhash"] or []:
        if vals == vs["vals"]:
            return h
    return None

def valid_sig(tables, pk, chain_hex, sig):
    return [pk, chain_hex, sig] in (tables["sigs"] or [])

def own_signed_power(tables, h, chain_hex):
    """voting power of the header's own validators with a valid commit signature for this header"""
    vs = h["vals"]
    if vs is None:
        return 0, 0
    total = sum(int(v["power"]) for v in vs["vals"])
    got = 0
    for v, s in zip(vs["vals"], h["commit"]["sigs"]):
        if s[0] == 2 and s[1] == v["addr"] and valid_sig(tables, v["pk"], chain_hex, s[3]):
            got += int(v["power"])
    return got, total

def trusted_signed_power(tables, h, chain_hex):
    """voting power of the distinct trusted validators that validly signed the commit"""
    tv = h["tvals"]
    if tv is None:
        return 0, 0
    total = sum(int(v["power"]) for v in tv["vals"])
    got = 0
    for v in tv["vals"]:
        if any(s[0] == 2 and s[1] == v["addr"] and valid_sig(tables, v["pk"], chain_hex, s[3]) for s in h["commit"]["sigs"]):
            got += int(v["power"])
    return got, total

def header_conditions(i, h, chain_hex, need_own, need_window):
    """why header h does NOT meet the acceptance conditions of the property (None if it meets them)"""
    c, t, now = i["client"], i["tables"], int(i["now"])
    cm = cons_map(c)
    tr = hpair(h["trusted"])
    if tr not in cm:
        return "no stored consensus state at the trusted height %s" % (tr,)
    ts, _, nvh = cm[tr][0], cm[tr][1], cm[tr][2]
    if real_vals_hash(t, h["tvals"]) != nvh:
        return "trusted validators do not hash to the trusted consensus state's next-validators hash"
    if not now < int(ts) + int(c["tp"]):
        return "trusted consensus state is outside the trusting period"
    tgot, ttot = trusted_signed_power(t, h, chain_hex)
    num, den = int(c["tl"][0]), int(c["tl"][1])
    adjacent = need_window and int(h["hdr"]["height"]) == tr[1] + 1
    if need_window:
        if revision_of(h["hdr"]["chain"]) != tr[0]:
            return "header revision differs from the trusted height's revision"
        if not int(h["hdr"]["height"]) > tr[1]:
            return "header height not above the trusted height"
        if not int(ts) < int(h["hdr"]["time"]) < now + int(c["dr"]):
            return "header time not within (trusted time, now + drift)"
    if need_own:
        got, tot = own_signed_power(t, h, chain_hex)
        if real_vals_hash(t, h["vals"]) != h["hdr"]["vals"]:
            return "validator set does not hash to the header's validators hash"
        if not 3 * got > 2 * tot:
            return "own validator set signed with %d of %d voting power (need > 2/3)" % (got, tot)
    if adjacent:
        if h["hdr"]["vals"] != nvh:
            return "adjacent header's validators hash differs from the trusted next-validators hash"
    elif i.get("valid", True):
        # (for client states that pass ClientState.Validate; others cannot be created)
        if not tgot * den >= ttot * num:
            return "trusted validators signed with %d of %d voting power (trust level %d/%d)" % (tgot, ttot, num, den)
    return None

MUST_REJECT = {"field-time", "field-apphash", "field-nextvals", "field-height", "field-chain", "field-data", "field-rehash",
               "commit-round", "commit-height", "commit-parts", "vals-power", "vals-extra", "tvals-wrong", "tvals-power",
               "trusted-missing", "trusted-revision", "revision"}

def spec_lheader(r):
    i = r["in"]
    basic, verdict = r["out"]
    if verdict == "ok":
        why = header_conditions(i, i["h"], i["client"]["chain"], True, True)
        if why:
            return "header accepted although " + why
        if r.get("tag") in MUST_REJECT:
            return "header accepted after mutation %s of a signed field / validator set / trusted height" % r["tag"]

def spec_lmisb(r):
    i = r["in"]
    basic, verdict, frozen, upd = r["out"]
    if frozen:
        for name in ("h1", "h2"):
            h = i[name]
            chain = set_revision(i["client"]["chain"], revision_of(h["hdr"]["chain"]))
            why = header_conditions(i, h, chain, False, False)
            if why:
                return "misbehaviour froze the client although for %s: %s" % (name, why)
            if basic == "ok":
                got, tot = own_signed_power(i["tables"], h, h["hdr"]["chain"])
                if not 3 * got > 2 * tot:
                    return "valid misbehaviour message whose %s has only %d of %d of its own voting power" % (name, got, tot)

def nontrivial_l(r):
    return True

KINDS["lheader"] = dict(props=["C24"], enc=enc_lheader, spec=spec_lheader, exact=False)
KINDS["lmisb"] = dict(props=["C24"], enc=enc_lmisb, spec=spec_lmisb, exact=False)

def enc_validate(r):
    return "ValidateCase %s %s" % (client_term(r["in"]["c"], raw), RES[r["out"]])

INT64_MAX = 2 ** 63 - 1

def spec_validate(r):
    """regression of F9: a tendermint client whose trust level does not fit int64 must not validate / be created"""
    c = r["in"]["c"]
    if r["out"] == "ok" and (int(c["tl"][0]) > INT64_MAX or int(c["tl"][1]) > INT64_MAX):
        return "client state with trust level %s/%s accepted (%s): CometBFT converts it to int64" % (c["tl"][0], c["tl"][1], r["in"]["via"])
    if r["out"] == "ok":
        num, den = int(c["tl"][0]), int(c["tl"][1])
        if den == 0 or num > den or 3 * num < den:
            return "client state with trust level %d/%d outside [1/3, 1] accepted" % (num, den)

KINDS["validate"] = dict(props=["C24", "C25"], enc=enc_validate, spec=spec_validate, exact=False)

# ------------------------------------------------------------------------------------------- C25: store writes

_CONS = _re.compile(rb"consensusStates/(\d+)-(\d+)(/processedTime|/processedHeight)?")
ITER_PREFIX = b"iterateConsensusStates"

def decode_key(hexkey):
    """client-store key -> (kind, height) with kind in clientState / cons / ptime / pheight / iter / other"""
    k = bytes.fromhex(hexkey)
    if k == b"clientState":
        return ("clientState", None)
    m = _CONS.fullmatch(k)
    if m:
        kind = {None: "cons", b"/processedTime": "ptime", b"/processedHeight": "pheight"}[m.group(3)]
        return (kind, (int(m.group(1)), int(m.group(2))))
    if k.startswith(ITER_PREFIX) and len(k) == len(ITER_PREFIX) + 16:
        t = k[len(ITER_PREFIX):]
        return ("iter", (int.from_bytes(t[:8], "big"), int.from_bytes(t[8:], "big")))
    return ("other", hexkey)

WK = {"cons": "KCons", "ptime": "KPTime", "pheight": "KPHeight", "iter": "KIter"}

def write_term(ns, w):
    kind, arg = decode_key(w[1])
    if kind == "clientState":
        kt = "KClientState"
    elif kind == "other":
        kt = "(KOther %s)" % hx(arg)
    else:
        kt = "(%s %s)" % (WK[kind], height(arg))
    return "(%s, %s, %s)" % (ns, "WSet" if w[0] == "set" else "WDel", kt)

def enc_recwrites(r):
    sh = Short()
    o = r["out"]
    ws = [write_term("NSubject", w) for w in o["subject"]] + [write_term("NSubstitute", w) for w in o["substitute"]]
    # the model lists writes in code order; writes of the two namespaces are recorded separately, so a write into
    # the substitute's namespace shows as an extra element (and a missing subject write as a missing one)
    return "RecWrites %s %s %s [%s]" % (client_term(r["in"]["c"], sh), client_term(r["in"]["s"], sh), RES[o["res"]], "; ".join(ws))

def spec_recwrites(r):
    """recovery wrote/deleted nothing in the substitute's namespace; what it writes are the subject's client state,
    the consensus state at the substitute's latest height and its three metadata entries; after a successful call the
    subject holds processed time, processed height and iteration key for the copied height"""
    o = r["out"]
    if o["substitute"]:
        return "recovery wrote into the substitute's namespace: %s" % [(w[0], bytes.fromhex(w[1])) for w in o["substitute"]]
    h = hpair(r["in"]["s"]["lt"])
    allowed = {("clientState", None), ("cons", h), ("ptime", h), ("pheight", h), ("iter", h)}
    got = [decode_key(w[1]) for w in o["subject"]]
    for w, g in zip(o["subject"], got):
        if w[0] != "set" or g not in allowed:
            return "recovery %s subject key %r (not part of the recovery of height %s)" % (w[0], bytes.fromhex(w[1]), h)
    if o["res"] == "ok":
        if set(got) != allowed:
            return "successful recovery did not write %s in the subject's namespace" % sorted(allowed - set(got), key=str)
        m = o["meta"]
        want_it = ("consensusStates/%d-%d" % h).encode().hex()
        if m["pt"] is None or m["ph"] is None or m["it"] != want_it:
            return "after recovery the subject lacks metadata for height %s: processedTime=%s processedHeight=%s iterationKey=%s" % (h, m["pt"], m["ph"], m["it"])

def enc_upgwrites(r):
    o = r["out"]
    return "UpgWrites %s %s [%s]" % (height(r["in"]["h"]), b(o["res"] == "ok"), "; ".join(write_term("NSubject", w) for w in o["writes"]))

def spec_upgwrites(r):
    o = r["out"]
    h = hpair(r["in"]["h"])
    got = [(w[0],) + decode_key(w[1]) for w in o["writes"]]
    if o["res"] != "ok":
        if got:
            return "failed upgrade wrote %s" % got
        return None
    want = {("set", "clientState", None), ("set", "cons", h), ("set", "ptime", h), ("set", "pheight", h), ("set", "iter", h)}
    if set(got) != want:
        return "upgrade to %s wrote %s, expected client state, consensus state and its three metadata entries" % (h, got)

KINDS["recwrites"] = dict(props=["C25"], enc=enc_recwrites, spec=spec_recwrites, exact=False)
KINDS["upgwrites"] = dict(props=["C25"], enc=enc_upgwrites, spec=spec_upgwrites, exact=False)

KNOWN = {}
