"""`icagmp` family: ICA host/controller, GMP accounts, callbacks middleware (C37-C40)."""
import hashlib
from lib.coqgen import N, Z, b, hx, opt, lst

NAME = "icagmp"
GO_PKG = "./icagmp"
COQ_IMPORTS = ("From IBC Require Import Lib.Bytes Lib.Dec Lib.CorrLib IcaGmp.Gmp IcaGmp.Bank IcaGmp.Callbacks "
               "IcaGmp.IcaHost Corr.IcaGmp.")
CASE_TYPE = "Case"
CHECK = "check"

U64 = 1 << 64


def bz(h):
    return bytes.fromhex(h)


import re as _re


def intern(term):
    """bind every distinct (hx "...") literal of a case term once: let-bound names keep the generated
    files small and their elaboration fast"""
    lits = []
    seen = {}
    def sub(mo):
        h = mo.group(1)
        if h not in seen:
            seen[h] = "x%d" % len(lits)
            lits.append(h)
        return seen[h]
    body = _re.sub(r'\(hx "([0-9a-f]*)"\)', sub, term)
    if not lits:
        return term
    return "".join('let %s := hx "%s" in ' % (seen[h], h) for h in lits) + body


# ---- C39: derivation ---------------------------------------------------------------------------

ID_CHARS = set(b"abcdefghijklmnopqrstuvwxyzABCDEFGHIJKLMNOPQRSTUVWXYZ0123456789._+-#[]<>")


def py_blank(s):
    """strings.TrimSpace(s) == "" : Go decodes UTF-8, invalid bytes are U+FFFD (not a space)"""
    try:
        t = s.decode("utf-8")
    except UnicodeDecodeError:
        # some invalid byte: blank only if it never gets decoded... any invalid byte is a non-space rune
        return False
    go_spaces = set("\t\n\v\f\r \u0085\u00a0\u1680\u2028\u2029\u202f\u205f\u3000") | {chr(c) for c in range(0x2000, 0x200b)}
    return all(ch in go_spaces for ch in t)


def py_client_id_ok(c):
    return (not py_blank(c)) and b"/" not in c and 4 <= len(c) <= 64 and all(x in ID_CHARS for x in c)


def py_gmp_address(c, s, salt):
    key = b"".join(len(x).to_bytes(8, "big") + x for x in (c, s, salt))
    th = hashlib.sha256(b"module").digest()
    return hashlib.sha256(th + b"gmp-accounts" + b"\x00" + key).digest()[:32]


def enc_gmp_addr(r):
    c, s, salt = r["in"]
    ok, a = r["out"]
    return "GmpAddr %s %s %s %s" % (hx(c), hx(s), hx(salt), opt(a if ok else None, hx))


def spec_gmp_addr(r):
    c, s, salt = (bz(x) for x in r["in"])
    ok, a = r["out"]
    want_ok = py_client_id_ok(c) and not py_blank(s)
    if ok != want_ok:
        return "BuildAddressPredictable(%r,%r,%r) ok=%s, validation requires ok=%s" % (c, s, salt, ok, want_ok)
    if ok and bz(a) != py_gmp_address(c, s, salt):
        return "BuildAddressPredictable(%r,%r,%r) = %s, the length-prefixed module derivation gives %s" % (
            c, s, salt, a, py_gmp_address(c, s, salt).hex())


def mon_gmp_addr_injective(recs, idx):
    """distinct triples never share an address; one triple has one address"""
    by_addr, by_triple, bad = {}, {}, []
    for r, i in zip(recs, idx):
        if r["k"] != "gmp_addr" or not r["out"][0]:
            continue
        t = tuple(r["in"]); a = r["out"][1]
        if a in by_addr and by_addr[a] != t:
            bad.append((i, "two distinct (client, sender, salt) triples share the GMP account address %s: %s and %s" % (a, by_addr[a], t)))
        by_addr.setdefault(a, t)
        if t in by_triple and by_triple[t] != a:
            bad.append((i, "triple %s derived two addresses %s and %s" % (t, by_triple[t], a)))
        by_triple.setdefault(t, a)
    return bad


# ---- C40: gas arithmetic and ProcessCallback -------------------------------------------------------

def gas_field(f):
    if f[0] == "absent":
        return "GfAbsent"
    if f[0] == "notstring":
        return "GfNotString"
    return "(GfString %s)" % hx(f[1])


def py_user_gas(f):
    """None = error"""
    if f[0] == "absent":
        return 0
    if f[0] == "notstring":
        return None
    s = bz(f[1])
    if s == b"":
        return 0
    if not all(48 <= c <= 57 for c in s):
        return None
    v = int(s)
    return v if v < U64 else None


def enc_cb_gas(r):
    f, rem, mx = r["in"]
    ok, ex, cm = r["out"]
    out = "(Some (%s, %s))" % (N(ex), N(cm)) if ok else "None"
    return "CbGas %s %s %s %s" % (gas_field(f), N(rem), N(mx), out)


def spec_cb_gas(r):
    f, rem, mx = r["in"]; rem = int(rem); mx = int(mx)
    ok, ex, cm = r["out"]; ex = int(ex); cm = int(cm)
    u = py_user_gas(f)
    if (u is not None) != ok:
        return "computeExecAndCommitGasLimit(%s) ok=%s but the gas_limit field %s" % (r["in"], ok, "is valid" if u is not None else "is invalid")
    if not ok:
        return None
    want_c = mx if (u == 0 or u > mx) else u
    want_e = min(rem, want_c)
    if (ex, cm) != (want_e, want_c):
        return "computeExecAndCommitGasLimit(user=%s, remaining=%d, max=%d) = (exec %d, commit %d); required exec=min(remaining, commit)=%d, commit=%d" % (u, rem, mx, ex, cm, want_e, want_c)


CBT = {"send_packet": "CbSend", "acknowledgement_packet": "CbAck", "timeout_packet": "CbTimeout", "receive_packet": "CbRecv"}
KIND = {"nil": 0, "err": 1, "panic": 2}
ERRC = {"nil": 0, "callback": 1, "panic": 2, "oog": 3}
PANC = {"contract": 0, "retry": 1, "outer-oog": 2, "outer-overflow": 3}


def obs_term(cls, what):
    return "(ORet %d)" % ERRC[what] if cls == "ret" else "(OPanic %d)" % PANC[what]


def enc_cb_process(r):
    t, kind, swallow, limit, consumed, exe, commit, used = r["in"]
    cls, what, oc, delta = r["out"]
    return "CbProcess %s %d %s %s %s %s %s %s %s %s %s" % (
        CBT[t], KIND[kind], b(swallow), N(limit), N(consumed), N(exe), N(commit), N(used), obs_term(cls, what), N(oc), N(delta))


def spec_cb_process(r):
    """C40 on one ProcessCallback run (independent of the model): gas bound, isolation, retry rule."""
    t, kind, swallow, limit, consumed, exe, commit, used = r["in"]
    limit, consumed, exe, commit, used = int(limit), int(consumed), int(exe), int(commit), int(used)
    cls, what, oc, delta = r["out"]; oc = int(oc); delta = int(delta)
    remaining = limit - consumed if consumed <= limit else 0
    if exe > remaining or consumed > limit:
        return None      # not a configuration the middleware can produce (exec = min(remaining, commit))
    charged = oc - consumed
    if charged != min(used, exe):
        return "callback charged %d gas to the transaction, required min(consumed=%d, exec=%d)" % (charged, used, exe)
    if charged > min(remaining, commit) and exe <= commit:
        return "callback used %d gas, more than min(remaining=%d, commit=%d)" % (charged, remaining, commit)
    oog = used > exe
    # what the contract did, as the transaction sees it
    if swallow:
        failed = kind != "nil"; panicked = False
    else:
        panicked = oog or kind == "panic"; failed = panicked or kind == "err"
    if t == "send_packet":
        if panicked and not (cls == "panic"):
            return "send callback panicked but ProcessCallback returned %s/%s" % (cls, what)
        if failed and not panicked and not oog and not (cls == "ret" and what != "nil"):
            return "send callback failed but no error was returned (%s/%s)" % (cls, what)
        if cls == "ret" and what != "nil" and delta != 0 and not (swallow and kind == "nil"):
            return "send callback returned an error but kept the callback's state"
        return None
    if oog and exe < commit:
        if not (cls == "panic" and what == "retry"):
            return "%s callback ran out of gas with exec %d < commit %d but the transaction was not aborted for retry (%s/%s)" % (t, exe, commit, cls, what)
        return None
    if cls == "panic":
        return "%s callback: a panic (%s) left ProcessCallback although exec >= commit or no out-of-gas occurred" % (t, what)
    if failed or oog:
        if what == "nil":
            return "%s callback failed (%s, used %d, exec %d) but nil was returned" % (t, kind, used, exe)
        if delta != 0 and not (swallow and kind == "nil"):
            return "%s callback failed but its state change was kept" % t
    else:
        if what != "nil" or delta != 1:
            return "%s callback succeeded within its gas but result=%s state delta=%d" % (t, what, delta)


# ---- C37: ICA host ---------------------------------------------------------------------------------

def pairs(xs, f, g):
    return lst(xs, lambda x: "(bN %s %s)" % (f(x[0]), g(x[1])))


def res_term(x):
    return "RPanic" if x == "panic" else ("ROk" if x else "RErr")


def host_msg(m):
    url, signers, eff = m
    sg = "None" if signers is None else "(Some %s)" % lst(signers, hx)
    if eff[0] == "send":
        step = "(lift_send %s %s %s)" % (hx(eff[1]), hx(eff[2]), N(eff[3]))
    else:
        step = "lift_fail"
    return "(hmsg %s %s %s)" % (hx(url), sg, step)


def enc_ica_host(r):
    i = r["in"]; res, after = r["out"]
    h = "(hstate %s %s %s %s %s)" % (
        b(i["enabled"]), lst(i["allow"], hx),
        lst(i["accounts"], lambda a: "((%s, %s), %s)" % (hx(a[0]), hx(a[1]), hx(a[2]))),
        lst(i["channels"], lambda c: "((%s, %s), (%s, %s))" % (hx(c[0]), hx(c[1]), lst(c[2], hx), b(c[3]))),
        pairs(i["bank"], hx, N))
    pk = i["pkt"]
    if pk["data"] is None:
        data = "None"
    else:
        ty, msgs = pk["data"]
        data = "(Some (%s, %s))" % (N(ty), "None" if msgs is None else "(Some %s)" % lst(msgs, host_msg))
    p = "(hpkt %s %s %s %s)" % (hx(pk["src_port"]), hx(pk["dst_port"]), hx(pk["dst_chan"]), data)
    return intern("IcaHostRecv %s %s %s %s" % (h, p, res_term(res), pairs(after, hx, N)))


def spec_ica_host(r):
    """C37 evaluated on the implementation's record: a state change needs every type allowed and every
    signer = the registered interchain account; all messages take effect or none."""
    i = r["in"]; res, after = r["out"]
    before = {a: int(v) for a, v in i["bank"]}
    aft = {a: int(v) for a, v in after}
    changed = before != aft
    if res is not True:
        if changed:
            return "ICA host returned %s but the host bank state changed: %s -> %s" % ("a panic" if res == "panic" else "an error acknowledgement", before, aft)
        return None
    pk = i["pkt"]
    if pk["data"] is None or pk["data"][1] is None or pk["data"][0] != 1:
        return "ICA host acknowledged success for a packet whose data does not decode to an EXECUTE_TX message list"
    msgs = pk["data"][1]
    if not i["enabled"]:
        return "ICA host executed a packet although the host submodule is disabled"
    # the account registered for (connection of the destination channel, controller port)
    conn = None
    for c in i["channels"]:
        if c[0] == pk["dst_port"] and c[1] == pk["dst_chan"] and c[2]:
            conn = c[2][0]
    ica = None
    for a in i["accounts"]:
        if a[0] == conn and a[1] == pk["src_port"]:
            ica = a[2]
    if ica is None:
        return "ICA host executed a packet for (connection, port) with no registered interchain account"
    allow = i["allow"]
    wildcard = allow == ["*".encode().hex()]
    cur = dict(before)
    for k, m in enumerate(msgs):
        url, signers, eff = m
        if not wildcard and url not in allow:
            return "ICA host executed message %d of type %s which is not on the allow list" % (k, bytes.fromhex(url).decode())
        if signers is None:
            return "ICA host executed message %d whose signers cannot be determined" % k
        for sgn in signers:
            if sgn != ica:
                return "ICA host executed message %d signed by %s, not the interchain account %s" % (k, sgn, ica)
        if eff[0] == "send":
            _, f, t, amt = eff; amt = int(amt)
            if f != ica:
                return "ICA host moved funds of %s on behalf of the interchain account %s (message %d)" % (f, ica, k)
            if cur.get(f, 0) < amt:
                return "message %d cannot succeed (balance %d < %d) but the packet was acknowledged as success" % (k, cur.get(f, 0), amt)
            cur[f] = cur.get(f, 0) - amt
            cur[t] = cur.get(t, 0) + amt
        else:
            return "message %d is known to fail in its handler but the packet was acknowledged as success" % k
    if {a: cur.get(a, 0) for a in aft} != aft:
        return "ICA host success but the bank state is not the effect of all messages: expected %s, got %s" % (cur, aft)


KINDS = {
    "gmp_addr": dict(props=["C39"], enc=enc_gmp_addr, spec=spec_gmp_addr, exact=True),
    "cb_gas": dict(props=["C40"], enc=enc_cb_gas, spec=spec_cb_gas, exact=True),
    "ica_host": dict(props=["C37"], enc=enc_ica_host, spec=spec_ica_host, exact=False),
    "cb_process": dict(props=["C40"], enc=enc_cb_process, spec=spec_cb_process, exact=False),
}

MONITORS = {
    "C39": [mon_gmp_addr_injective],
}

KNOWN = {}
