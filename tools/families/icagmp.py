"""`icagmp` family: ICA host/controller, GMP accounts, callbacks middleware (C37-C40)."""
import hashlib
from lib.coqgen import N, Z, b, hx, opt, lst

NAME = "icagmp"
GO_PKG = "./icagmp"
COQ_IMPORTS = ("From IBC Require Import Lib.Bytes Lib.Dec Lib.CorrLib IcaGmp.Gmp IcaGmp.Bank IcaGmp.Callbacks "
               "IcaGmp.IcaHost IcaGmp.IcaChan Corr.IcaGmp.")
CASE_TYPE = "Case"
CHECK = "check"

U64 = 1 << 64


def bz(h):
    return bytes.fromhex(h)


import re as _re


def intern(term):
    """bind every distinct (hx "...") literal of a case term once: let-bound names keep the generated
    files small and their elaboration fast"""
    lits = []
    seen = {}
    def sub(mo):
        h = mo.group(1)
        if h not in seen:
            seen[h] = "x%d" % len(lits)
            lits.append(h)
        return seen[h]
    body = _re.sub(r'\(hx "([0-9a-f]*)"\)', sub, term)
    if not lits:
        return term
    return "".join('let %s := hx "%s" in ' % (seen[h], h) for h in lits) + body


# ---- C39: derivation ---------------------------------------------------------------------------

ID_CHARS = set(b"abcdefghijklmnopqrstuvwxyzABCDEFGHIJKLMNOPQRSTUVWXYZ0123456789._+-#[]<>")


def py_blank(s):
    """strings.TrimSpace(s) == "" : Go decodes UTF-8, invalid bytes are U+FFFD (not a space)"""
    try:
        t = s.decode("utf-8")
    except UnicodeDecodeError:
        # some invalid byte: blank only if it never gets decoded... any invalid byte is a non-space rune
        return False
    go_spaces = set("\t\n\v\f\r \u0085\u00a0\u1680\u2028\u2029\u202f\u205f\u3000") | {chr(c) for c in range(0x2000, 0x200b)}
    return all(ch in go_spaces for ch in t)


def py_client_id_ok(c):
    return (not py_blank(c)) and b"/" not in c and 4 <= len(c) <= 64 and all(x in ID_CHARS for x in c)


def py_gmp_address(c, s, salt):
    key = b"".join(len(x).to_bytes(8, "big") + x for x in (c, s, salt))
    th = hashlib.sha256(b"module").digest()
    return hashlib.sha256(th + b"gmp-accounts" + b"\x00" + key).digest()[:32]


def enc_gmp_addr(r):
    c, s, salt = r["in"]
    ok, a = r["out"]
    return "GmpAddr %s %s %s %s" % (hx(c), hx(s), hx(salt), opt(a if ok else None, hx))


def spec_gmp_addr(r):
    c, s, salt = (bz(x) for x in r["in"])
    ok, a = r["out"]
    want_ok = py_client_id_ok(c) and not py_blank(s)
    if ok != want_ok:
        return "BuildAddressPredictable(%r,%r,%r) ok=%s, validation requires ok=%s" % (c, s, salt, ok, want_ok)
    if ok and bz(a) != py_gmp_address(c, s, salt):
        return "BuildAddressPredictable(%r,%r,%r) = %s, the length-prefixed module derivation gives %s" % (
            c, s, salt, a, py_gmp_address(c, s, salt).hex())


def mon_gmp_addr_injective(recs, idx):
    """distinct triples never share an address; one triple has one address"""
    by_addr, by_triple, bad = {}, {}, []
    for r, i in zip(recs, idx):
        if r["k"] != "gmp_addr" or not r["out"][0]:
            continue
        t = tuple(r["in"]); a = r["out"][1]
        if a in by_addr and by_addr[a] != t:
            bad.append((i, "two distinct (client, sender, salt) triples share the GMP account address %s: %s and %s" % (a, by_addr[a], t)))
        by_addr.setdefault(a, t)
        if t in by_triple and by_triple[t] != a:
            bad.append((i, "triple %s derived two addresses %s and %s" % (t, by_triple[t], a)))
        by_triple.setdefault(t, a)
    return bad


# ---- C40: gas arithmetic and ProcessCallback -------------------------------------------------------

def gas_field(f):
    if f[0] == "absent":
        return "GfAbsent"
    if f[0] == "notstring":
        return "GfNotString"
    return "(GfString %s)" % hx(f[1])


def py_user_gas(f):
    """None = error"""
    if f[0] == "absent":
        return 0
    if f[0] == "notstring":
        return None
    s = bz(f[1])
    if s == b"":
        return 0
    if not all(48 <= c <= 57 for c in s):
        return None
    v = int(s)
    return v if v < U64 else None


def enc_cb_gas(r):
    f, rem, mx = r["in"]
    ok, ex, cm = r["out"]
    out = "(Some (%s, %s))" % (N(ex), N(cm)) if ok else "None"
    return "CbGas %s %s %s %s" % (gas_field(f), N(rem), N(mx), out)


def spec_cb_gas(r):
    f, rem, mx = r["in"]; rem = int(rem); mx = int(mx)
    ok, ex, cm = r["out"]; ex = int(ex); cm = int(cm)
    u = py_user_gas(f)
    if (u is not None) != ok:
        return "computeExecAndCommitGasLimit(%s) ok=%s but the gas_limit field %s" % (r["in"], ok, "is valid" if u is not None else "is invalid")
    if not ok:
        return None
    want_c = mx if (u == 0 or u > mx) else u
    want_e = min(rem, want_c)
    if (ex, cm) != (want_e, want_c):
        return "computeExecAndCommitGasLimit(user=%s, remaining=%d, max=%d) = (exec %d, commit %d); required exec=min(remaining, commit)=%d, commit=%d" % (u, rem, mx, ex, cm, want_e, want_c)


CBT = {"send_packet": "CbSend", "acknowledgement_packet": "CbAck", "timeout_packet": "CbTimeout", "receive_packet": "CbRecv"}
KIND = {"nil": 0, "err": 1, "panic": 2}
ERRC = {"nil": 0, "callback": 1, "panic": 2, "oog": 3}
PANC = {"contract": 0, "retry": 1, "outer-oog": 2, "outer-overflow": 3}


def obs_term(cls, what):
    return "(ORet %d)" % ERRC[what] if cls == "ret" else "(OPanic %d)" % PANC[what]


def enc_cb_process(r):
    t, kind, swallow, limit, consumed, exe, commit, used = r["in"]
    cls, what, oc, delta = r["out"]
    return "CbProcess %s %d %s %s %s %s %s %s %s %s %s" % (
        CBT[t], KIND[kind], b(swallow), N(limit), N(consumed), N(exe), N(commit), N(used), obs_term(cls, what), N(oc), N(delta))


def spec_cb_process(r):
    """C40 on one ProcessCallback run (independent of the model): gas bound, isolation, retry rule."""
    t, kind, swallow, limit, consumed, exe, commit, used = r["in"]
    limit, consumed, exe, commit, used = int(limit), int(consumed), int(exe), int(commit), int(used)
    cls, what, oc, delta = r["out"]; oc = int(oc); delta = int(delta)
    remaining = limit - consumed if consumed <= limit else 0
    if exe > remaining or consumed > limit:
        return None      # not a configuration the middleware can produce (exec = min(remaining, commit))
    charged = oc - consumed
    if charged != min(used, exe):
        return "callback charged %d gas to the transaction, required min(consumed=%d, exec=%d)" % (charged, used, exe)
    if charged > min(remaining, commit) and exe <= commit:
        return "callback used %d gas, more than min(remaining=%d, commit=%d)" % (charged, remaining, commit)
    oog = used > exe
    # what the contract did, as the transaction sees it
    if swallow:
        failed = kind != "nil"; panicked = False
    else:
        panicked = oog or kind == "panic"; failed = panicked or kind == "err"
    if t == "send_packet":
        if panicked and not (cls == "panic"):
            return "send callback panicked but ProcessCallback returned %s/%s" % (cls, what)
        if failed and not panicked and not oog and not (cls == "ret" and what != "nil"):
            return "send callback failed but no error was returned (%s/%s)" % (cls, what)
        if cls == "ret" and what != "nil" and delta != 0 and not (swallow and kind == "nil"):
            return "send callback returned an error but kept the callback's state"
        return None
    if oog and exe < commit:
        if not (cls == "panic" and what == "retry"):
            return "%s callback ran out of gas with exec %d < commit %d but the transaction was not aborted for retry (%s/%s)" % (t, exe, commit, cls, what)
        return None
    if cls == "panic":
        return "%s callback: a panic (%s) left ProcessCallback although exec >= commit or no out-of-gas occurred" % (t, what)
    if failed or oog:
        if what == "nil":
            return "%s callback failed (%s, used %d, exec %d) but nil was returned" % (t, kind, used, exe)
        if delta != 0 and not (swallow and kind == "nil"):
            return "%s callback failed but its state change was kept" % t
    else:
        if what != "nil" or delta != 1:
            return "%s callback succeeded within its gas but result=%s state delta=%d" % (t, what, delta)


# ---- C37: ICA host ---------------------------------------------------------------------------------

def pairs(xs, f, g):
    return lst(xs, lambda x: "(bN %s %s)" % (f(x[0]), g(x[1])))


def res_term(x):
    return "RPanic" if x == "panic" else ("ROk" if x else "RErr")


def host_msg(m):
    url, signers, eff = m
    sg = "None" if signers is None else "(Some %s)" % lst(signers, hx)
    if eff[0] == "send":
        step = "(lift_send %s %s %s)" % (hx(eff[1]), hx(eff[2]), N(eff[3]))
    else:
        step = "lift_fail"
    return "(hmsg %s %s %s)" % (hx(url), sg, step)


def enc_ica_host(r):
    i = r["in"]; res, after = r["out"]
    h = "(hstate %s %s %s %s %s)" % (
        b(i["enabled"]), lst(i["allow"], hx),
        lst(i["accounts"], lambda a: "((%s, %s), %s)" % (hx(a[0]), hx(a[1]), hx(a[2]))),
        lst(i["channels"], lambda c: "((%s, %s), (%s, %s))" % (hx(c[0]), hx(c[1]), lst(c[2], hx), b(c[3]))),
        pairs(i["bank"], hx, N))
    pk = i["pkt"]
    if pk["data"] is None:
        data = "None"
    else:
        ty, msgs = pk["data"]
        data = "(Some (%s, %s))" % (N(ty), "None" if msgs is None else "(Some %s)" % lst(msgs, host_msg))
    p = "(hpkt %s %s %s %s)" % (hx(pk["src_port"]), hx(pk["dst_port"]), hx(pk["dst_chan"]), data)
    return intern("IcaHostRecv %s %s %s %s" % (h, p, res_term(res), pairs(after, hx, N)))


def spec_ica_host(r):
    """C37 evaluated on the implementation's record: a state change needs every type allowed and every
    signer = the registered interchain account; all messages take effect or none."""
    i = r["in"]; res, after = r["out"]
    before = {a: int(v) for a, v in i["bank"]}
    aft = {a: int(v) for a, v in after}
    changed = before != aft
    if res is not True:
        if changed:
            return "ICA host returned %s but the host bank state changed: %s -> %s" % ("a panic" if res == "panic" else "an error acknowledgement", before, aft)
        return None
    pk = i["pkt"]
    if pk["data"] is None or pk["data"][1] is None or pk["data"][0] != 1:
        return "ICA host acknowledged success for a packet whose data does not decode to an EXECUTE_TX message list"
    msgs = pk["data"][1]
    if not i["enabled"]:
        return "ICA host executed a packet although the host submodule is disabled"
    # the account registered for (connection of the destination channel, controller port)
    conn = None
    for c in i["channels"]:
        if c[0] == pk["dst_port"] and c[1] == pk["dst_chan"] and c[2]:
            conn = c[2][0]
    ica = None
    for a in i["accounts"]:
        if a[0] == conn and a[1] == pk["src_port"]:
            ica = a[2]
    if ica is None:
        return "ICA host executed a packet for (connection, port) with no registered interchain account"
    allow = i["allow"]
    wildcard = allow == ["*".encode().hex()]
    cur = dict(before)
    for k, m in enumerate(msgs):
        url, signers, eff = m
        if not wildcard and url not in allow:
            return "ICA host executed message %d of type %s which is not on the allow list" % (k, bytes.fromhex(url).decode())
        if signers is None:
            return "ICA host executed message %d whose signers cannot be determined" % k
        for sgn in signers:
            if sgn != ica:
                return "ICA host executed message %d signed by %s, not the interchain account %s" % (k, sgn, ica)
        if eff[0] == "send":
            _, f, t, amt = eff; amt = int(amt)
            if f != ica:
                return "ICA host moved funds of %s on behalf of the interchain account %s (message %d)" % (f, ica, k)
            if cur.get(f, 0) < amt:
                return "message %d cannot succeed (balance %d < %d) but the packet was acknowledged as success" % (k, cur.get(f, 0), amt)
            cur[f] = cur.get(f, 0) - amt
            cur[t] = cur.get(t, 0) + amt
        else:
            return "message %d is known to fail in its handler but the packet was acknowledged as success" % k
    if {a: cur.get(a, 0) for a in aft} != aft:
        return "ICA host success but the bank state is not the effect of all messages: expected %s, got %s" % (cur, aft)


# ---- C38: ICA channels -----------------------------------------------------------------------------

ORD = {"ordered": "OrdOrdered", "unordered": "OrdUnordered", "none": "OrdNone"}
STT = {"init": "StInit", "tryopen": "StTryOpen", "open": "StOpen", "closed": "StClosed"}


def version_term(v):
    if v[0] == "blank":
        return "VBlank"
    if v[0] == "bad":
        return "VBad"
    return "(VMeta (mkMd %s))" % " ".join(hx(x) for x in v[1:])


def snap_term(s):
    def keyedN(xs):
        return lst(xs, lambda e: "(kN %s %s %s)" % (hx(e[0]), hx(e[1]), opt(e[2], N)))
    def keyedB(xs):
        return lst(xs, lambda e: "(kB %s %s %s)" % (hx(e[0]), hx(e[1]), opt(e[2], hx)))
    def chans(xs):
        return lst(xs or [], lambda e: "(cS %s %s)" % (N(e[0]), STT[e[1]]))
    return "(mkSnap %s %s %s %s %s %s %s %s)" % (keyedN(s["c_active"]), keyedB(s["c_acc"]), chans(s["c_chans"]), N(s["c_next"]),
                                                 keyedN(s["h_active"]), keyedB(s["h_acc"]), chans(s["h_chans"]), N(s["h_next"]))


def chan_op_term(op, out):
    k = op["op"]
    if k == "register":
        return "(OC (CRegister %s %s %s %s))" % (hx(op["owner"]), hx(op["conn"]), version_term(op["version"]), ORD[op["order"]])
    if k == "init":
        return "(OC (CInit %s %s %s %s %s))" % (ORD[op["order"]], hx(op["conn"]), hx(op["port"]), hx(op["cp_port"]), version_term(op["version"]))
    if k == "ack":
        return "(OC (CAck %s %s))" % (N(op["id"]), version_term(op["version"]))
    if k == "close_ctrl":
        return "(OC (CClose %s))" % N(op["id"])
    if k in ("ctrl_try", "ctrl_confirm", "ctrl_close_init"):
        return "(OC CTry)"
    if k in ("host_init", "host_ack", "host_close_init"):
        return "(OH HInit)"
    if k == "try":
        return "(OH (HTry %s %s %s %s %s))" % (ORD[op["order"]], hx(op["conn"]), hx(op["cp_port"]), version_term(op["version"]), hx(op["gen"]))
    if k == "confirm":
        return "(OH (HConfirm %s))" % N(op["id"])
    if k == "close_host":
        return "(OH (HClose %s))" % N(op["id"])
    if k == "sendtx":
        sent = "None" if out[0] != "ok" else "(Some (%s, %s))" % (hx(out[1]), N(out[2]))
        return "(OCSend %s %s %s %s %s)" % (hx(op["signer"]), hx(op["owner"]), hx(op["conn"]), b(op["timeout_ok"]), sent)
    if k == "ack_probe":
        return "(OCAckProbe %s %s)" % (N(op["id"]), version_term(op["version"]))
    if k == "try_probe":
        return "(OHTryProbe %s %s %s %s %s)" % (hx(op["port"]), hx(op["conn"]), hx(op["cp_port"]), version_term(op["version"]), hx(op["gen"]))
    raise ValueError("unknown ica_chan op " + k)


def res_of(out):
    r = out if isinstance(out, str) else out[0]
    return {"ok": "ROk", "err": "RErr", "panic": "RPanic"}[r]


def enc_ica_chan(r):
    i = r["in"]
    c0 = "(mkCtrl true [(%s, %s)] [] [] [] [] %s)" % (hx(i["connA"]), hx(i["connB"]), N(i["init"]["c_next"]))
    h0 = "(mkHost true [(%s, %s)] [] [] [] [] [] %s)" % (hx(i["connB"]), hx(i["connA"]), N(i["init"]["h_next"]))
    steps = lst(list(zip(i["ops"], r["out"])), lambda e: "(stepT %s %s %s)" % (chan_op_term(e[0], e[1][0]), res_of(e[1][0]), snap_term(e[1][1])))
    return intern("IcaChanHist %s %s %s" % (c0, h0, steps))


CTRL_PREFIX = b"icacontroller-".hex()
HOST_PORT = b"icahost".hex()


def _c38_walk(r):
    """yield (index, violation text, is_host_replace) for one history; independent evaluation of C38"""
    i = r["in"]
    connA, connB = i["connA"], i["connB"]
    prev = i["init"]
    cport, corder, cver = {}, {}, {}        # controller channel -> port / order / metadata (list or None)
    hkey = {}                               # host channel -> controller port
    hcp = {}                                # host channel -> controller channel
    default_md = [b"ics27-1".hex(), connA, connB, "", b"proto3".hex(), b"sdk_multi_msg".hex()]
    def md_of(v):
        return None if v[0] != "meta" else list(v[1:])
    def same_but_addr(a, b_):
        return a is not None and b_ is not None and [a[0], a[1], a[2], a[4], a[5]] == [b_[0], b_[1], b_[2], b_[4], b_[5]]
    def state(chs, cid):
        for e in chs or []:
            if e[0] == cid:
                return e[1]
        return None
    def active(lst_, conn, port):
        for e in lst_:
            if e[0] == conn and e[1] == port:
                return e[2]
        return None
    for k, (op, out) in enumerate(zip(i["ops"], r["out"])):
        res = out[0] if isinstance(out[0], str) else out[0][0]
        snap = out[1]
        kind = op["op"]
        # always-error callbacks
        if kind in ("ctrl_try", "ctrl_confirm", "ctrl_close_init", "host_init", "host_ack", "host_close_init") and res != "err":
            yield k, "%s callback did not return an error" % kind, False
        if kind in ("register", "init") and res == "ok":
            port = op["port"] if kind == "init" else CTRL_PREFIX + op["owner"]
            cp = op.get("cp_port", HOST_PORT)
            newid = prev["c_next"]
            cport[newid] = port; corder[newid] = op["order"]
            v = op["version"]
            cver[newid] = default_md if v[0] == "blank" else md_of(v)
            if cp != HOST_PORT:
                yield k, "channel handshake started with counterparty port %s, not icahost" % bytes.fromhex(cp).decode(), False
            if not port.startswith(CTRL_PREFIX):
                yield k, "controller handshake accepted on port %s" % port, False
            old = active(prev["c_active"], op["conn"], port)
            if old is not None:
                if state(prev["c_chans"], old) != "closed":
                    yield k, "handshake re-initialised for (connection, port) while its active channel %s is %s" % (old, state(prev["c_chans"], old)), False
                if corder.get(old) != op["order"]:
                    yield k, "reopening changed the channel ordering (%s -> %s)" % (corder.get(old), op["order"]), False
                if not same_but_addr(cver.get(old), cver[newid]):
                    yield k, "reopening accepted different metadata: %s vs %s" % (cver.get(old), cver[newid]), False
        if kind == "init" and op["cp_port"] != HOST_PORT and res == "ok":
            pass
        if kind == "ack" and res == "ok":
            cver[op["id"]] = md_of(op["version"])
        if kind == "try" and res == "ok":
            hkey[prev["h_next"]] = op["cp_port"]
            hcp[prev["h_next"]] = op.get("cp_chan")
        if kind == "sendtx" and res == "ok":
            sent_port, sent_chan = out[0][1], out[0][2]
            if op["signer"] != op["owner"]:
                yield k, "SendTx for owner %s accepted in a transaction signed by %s" % (op["owner"], op["signer"]), False
            if sent_port != CTRL_PREFIX + op["owner"]:
                yield k, "SendTx sent on port %s, not the owner's port" % sent_port, False
            if active(snap["c_active"], op["conn"], sent_port) != sent_chan or state(snap["c_chans"], sent_chan) != "open":
                yield k, "SendTx used channel %s which is not the OPEN active channel" % sent_chan, False
        # replacement only after CLOSED; addresses never change
        for side, act, chs, acc in (("controller", "c_active", "c_chans", "c_acc"), ("host", "h_active", "h_chans", "h_acc")):
            for e_prev, e_now in zip(prev[act], snap[act]):
                if e_prev[2] is not None and e_now[2] != e_prev[2]:
                    st = state(prev[chs], e_prev[2])
                    if st != "closed":
                        # the listed finding F10, narrowly: a host ChanOpenConfirm overwrites an entry whose channel is
                        # OPEN on the host while its controller end is already CLOSED
                        f10 = (side == "host" and kind == "confirm" and st == "open" and e_now[2] is not None
                               and state(prev["c_chans"], hcp.get(e_prev[2])) == "closed")
                        yield k, "%s active channel of (connection, port) replaced (%s -> %s) while channel %s is %s, not CLOSED" % (side, e_prev[2], e_now[2], e_prev[2], st), f10
            for e_prev, e_now in zip(prev[acc], snap[acc]):
                if e_prev[2] is not None and e_now[2] != e_prev[2]:
                    yield k, "%s interchain account address of (connection, port) changed %s -> %s" % (side, e_prev[2], e_now[2]), False
        # at most one OPEN controller channel per (connection, port)
        seen = {}
        for cid, st in snap["c_chans"] or []:
            if st == "open":
                p = cport.get(cid)
                if p in seen:
                    yield k, "two OPEN controller channels %s and %s on port %s" % (seen[p], cid, p), False
                seen[p] = cid
                if active(snap["c_active"], connA, p) != cid:
                    yield k, "OPEN controller channel %s is not the active channel of its port" % cid, False
        prev = snap


def spec_ica_chan(r):
    for k, why, _ in _c38_walk(r):
        return "op %d: %s" % (k, why)


def known_f10(r):
    """host OnChanOpenConfirm replaced an active channel that was still OPEN (two handshakes in flight)"""
    if r.get("k") != "ica_chan":
        return False
    vs = list(_c38_walk(r))
    return bool(vs) and all(h for _, _, h in vs)


# ---- C39: GMP histories ----------------------------------------------------------------------------

def gmp_msg(m):
    url, signers, eff = m
    sg = "None" if signers is None else "(Some %s)" % lst(signers, hx)
    step = "(gsend %s %s %s)" % (hx(eff[1]), hx(eff[2]), N(eff[3])) if eff[0] == "send" else "gfail"
    return "(gmsg %s %s %s)" % (hx(url), sg, step)


def gmp_data(d):
    return "None" if d is None else "(Some (gdata %s %s %s %s %s))" % (hx(d[0]), hx(d[1]), N(d[2]), N(d[3]), N(d[4]))


def gmp_op_term(op, out):
    if op["kind"] == "send":
        i = "(mkSendIn %s %s %s %s %s %s)" % (hx(op["src_port"]), hx(op["dst_port"]), b(op["cids_ok"]), gmp_data(op["data"]),
                                            opt(op["sender_addr"], hx), hx(op["signer"]))
        return "(GSend %s %s)" % (i, b(out[0] == "ok"))
    msgs = "None" if op["msgs"] is None else "(Some %s)" % lst(op["msgs"], gmp_msg)
    i = "(grecv %s %s %s %s %s %s)" % (hx(op["src_port"]), hx(op["dst_port"]), hx(op["version"]), hx(op["client"]), gmp_data(op["data"]), msgs)
    t = op["triple"]
    return "(GRecv %s (%s, %s, %s) %s %s %s)" % (i, hx(t[0]), hx(t[1]), hx(t[2]), res_of(out[0]), opt(out[1], hx), pairs(out[2], hx, N))


def enc_gmp_hist(r):
    ops = lst(list(zip(r["in"]["ops"], r["out"])), lambda e: gmp_op_term(e[0], e[1]))
    return intern("GmpHist %s %s" % (pairs(r["in"]["bank"], hx, N), ops))


def spec_gmp_hist(r):
    """C39 on a history: write-once accounts map with derived addresses, single-signer execution, atomicity,
    sender = signer on sends"""
    bank = {a: int(v) for a, v in r["in"]["bank"]}
    entries = {}
    for k, (op, out) in enumerate(zip(r["in"]["ops"], r["out"])):
        if op["kind"] == "send":
            if out[0] == "ok" and (op["sender_addr"] is None or op["sender_addr"] != op["signer"]):
                return "op %d: OnSendPacket accepted a packet whose sender %s is not the signer %s" % (k, op["sender_addr"], op["signer"])
            continue
        status, entry, after = out
        aft = {a: int(v) for a, v in after}
        t = tuple(op["triple"])
        if t in entries and entries[t] != entry:
            return "op %d: the account of triple %s changed from %s to %s" % (k, t, entries[t], entry)
        if entry is not None:
            want = py_gmp_address(*(bz(x) for x in t)).hex()
            if entry != want:
                return "op %d: stored account %s of triple %s is not its derived address %s" % (k, entry, t, want)
            for t2, e2 in entries.items():
                if t2 != t and e2 == entry:
                    return "op %d: triples %s and %s share the account %s" % (k, t, t2, entry)
            entries[t] = entry
        if status != "ok":
            if aft != bank:
                return "op %d: GMP receive failed (%s) but the bank state changed" % (k, status)
            continue
        if op["data"] is None or op["msgs"] is None or len(op["msgs"]) == 0:
            return "op %d: GMP receive succeeded without a decodable, non-empty message list" % k
        acct = entry
        if acct is None:
            return "op %d: GMP receive succeeded but no account is recorded for the triple" % k
        cur = dict(bank)
        for j, (url, signers, eff) in enumerate(op["msgs"]):
            if signers is None or len(signers) != 1 or signers[0] != acct:
                return "op %d: message %d executed with signers %s, required exactly [%s]" % (k, j, signers, acct)
            if eff[0] != "send":
                return "op %d: message %d is known to fail but the receive succeeded" % (k, j)
            _, f, to, amt = eff; amt = int(amt)
            if cur.get(f, 0) < amt:
                return "op %d: message %d overdraws but the receive succeeded" % (k, j)
            cur[f] -= amt; cur[to] = cur.get(to, 0) + amt
        if {a: cur.get(a, 0) for a in aft} != aft:
            return "op %d: committed bank state %s is not the effect of all messages %s" % (k, aft, cur)
        bank = aft


# ---- C40: middleware entry points -------------------------------------------------------------------

CB_MAX = 1000000


def enc_cb_mw(r):
    t, kind, swallow, limit, c0, gf, cbkind, used = r["in"]
    cls, inner, after, delta, ack_ok = r["out"]
    if cbkind == "notcb":
        d = "NotCbPacket"
    elif cbkind == "invalid" and py_user_gas(gf) is not None:
        d = "CbInvalid"                      # malformed for another reason than the gas field (empty address)
    else:
        d = "(CbWanted %s)" % gas_field(gf)
    if c0 is None:
        c0 = after
    if cls.startswith("panic-"):
        obs = "(MPanicObs %d)" % PANC[cls[6:]]
    else:
        obs = "(MRet %s %s)" % (b(cls == "ret-ok"), N(max(delta, 0)))
    return "CbMw %s %d %s %s %s %d %s %s %s %s %s" % (CBT[t], KIND[kind], b(swallow), N(limit), N(c0), CB_MAX, d, N(used), obs, opt(inner, N), N(after))


def spec_cb_mw(r):
    """C40 on one middleware call: gas bound, lifecycle continues for ack/timeout, send failures propagate,
    failing destination callback => error ack, retry panic only when exec < commit"""
    t, kind, swallow, limit, c0, gf, cbkind, used = r["in"]
    cls, inner, after, delta, ack_ok = r["out"]
    limit, used, after = int(limit), int(used), int(after)
    if cbkind == "notcb":
        if cls != "ret-ok" or delta != 0:
            return "%s without callback data did not pass through (%s)" % (t, cls)
        return None
    if c0 is None:      # callback never ran: malformed callback data
        if cbkind == "invalid" and cls != "ret-err":
            return "%s with malformed callback data returned %s" % (t, cls)
        return None
    c0 = int(c0); inner = int(inner)
    remaining = limit - c0
    u = py_user_gas(gf)
    commit = CB_MAX if (u == 0 or u > CB_MAX) else u
    exe = min(remaining, commit)
    if inner != exe:
        return "%s callback ran with gas limit %d, required min(remaining %d, commit %d)" % (t, inner, remaining, commit)
    charged = after - c0
    if charged != min(used, exe) or charged > min(remaining, commit):
        return "%s callback charged %d gas, required min(used %d, exec %d)" % (t, charged, used, exe)
    oog = used > exe
    if swallow:
        panicked = False; failed = kind != "nil"
    else:
        panicked = oog or kind == "panic"; failed = panicked or kind == "err"
    corner = swallow and kind == "nil" and oog          # executor outside the meter discipline
    if t == "send_packet":
        if panicked and not cls.startswith("panic-"):
            return "send callback panicked but the send returned %s" % cls
        if failed and not panicked and cls == "ret-ok":
            return "send callback failed but the send was accepted"
        return None
    if oog and exe < commit:
        if cls != "panic-retry":
            return "%s callback out of gas with exec %d < commit %d: expected the OutOfGas retry panic, got %s" % (t, exe, commit, cls)
        return None
    if cls.startswith("panic-"):
        return "%s callback: panic %s escaped although exec >= commit or no out-of-gas" % (t, cls)
    bad = failed or oog
    if t == "receive_packet":
        if bad and (cls != "ret-err" or ack_ok):
            return "failing destination callback did not produce an error acknowledgement"
        if not bad and (cls != "ret-ok" or not ack_ok or delta != 1):
            return "successful destination callback: ack %s, state delta %d" % (ack_ok, delta)
    else:
        if cls != "ret-ok":
            return "%s: callback failure blocked the packet lifecycle (%s)" % (t, cls)
        if not bad and delta != 1:
            return "%s: successful callback state not committed" % t
    if bad and delta != 0 and not corner:
        return "%s: failing callback's state change was kept" % t


KINDS = {
    "gmp_addr": dict(props=["C39"], enc=enc_gmp_addr, spec=spec_gmp_addr, exact=True),
    "cb_gas": dict(props=["C40"], enc=enc_cb_gas, spec=spec_cb_gas, exact=True),
    "gmp_hist": dict(props=["C39"], enc=enc_gmp_hist, spec=spec_gmp_hist, exact=False),
    "ica_chan": dict(props=["C38"], enc=enc_ica_chan, spec=spec_ica_chan, exact=False,
                     nontrivial=lambda r: len(r["in"]["ops"]) >= 4),
    "ica_host": dict(props=["C37"], enc=enc_ica_host, spec=spec_ica_host, exact=False),
    "cb_mw": dict(props=["C40"], enc=enc_cb_mw, spec=spec_cb_mw, exact=False),
    "cb_process": dict(props=["C40"], enc=enc_cb_process, spec=spec_cb_process, exact=False),
}

MONITORS = {
    "C39": [mon_gmp_addr_injective],
}

KNOWN = {"F10": known_f10}
