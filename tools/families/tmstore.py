"""`tmstore` family: 07-tendermint client store and update logic (C19 C20 C22 C23)."""
from lib.coqgen import N, Z, b, hx, opt, lst, height

NAME = "tmstore"
GO_PKG = "./tmstore"
COQ_IMPORTS = "From IBC Require Import Lib.Bytes Lib.Dec Lib.CorrLib Core.Height TmStore.KV TmStore.Store TmStore.Client Corr.TmStore."
CASE_TYPE = "Case"
CHECK = "check"

U64 = 1 << 64

# ---- C19 -------------------------------------------------------------------------------------

def enc_block_delay(r):
    d, p = r["in"]
    return "BlockDelay %s %s %s" % (N(d), N(p), "None" if r["out"] == "panic" else "(Some %s)" % N(r["out"]))

def spec_block_delay(r):
    d, p = int(r["in"][0]), int(r["in"][1])
    if r["out"] == "panic":
        return "getBlockDelay(%d, %d) panicked" % (d, p)
    want = 0 if p == 0 else -(-d // p)
    if int(r["out"]) != want:
        return "getBlockDelay(delay=%d, maxExpectedTimePerBlock=%d) = %s, exact ceiling is %d" % (d, p, r["out"], want)

def enc_delay_passed(r):
    i = r["in"]
    return "DelayPassed %s %s %s %s %s %s %s" % (
        opt(i["pt"], N), opt(i["ph"], height), N(i["now"]), height(i["self"]), N(i["dt"]), N(i["db"]), b(r["out"] == "ok"))

def spec_delay_passed(r):
    i = r["in"]
    now, dt, db = int(i["now"]), int(i["dt"]), int(i["db"])
    selfh = (int(i["self"][0]), int(i["self"][1]))
    time_ok = dt == 0 or (i["pt"] is not None and int(i["pt"]) + dt <= now)
    if db == 0:
        block_ok = True
    elif i["ph"] is None:
        block_ok = False
    else:
        prev, ph = int(i["ph"][0]), int(i["ph"][1])
        # an unrepresentable processed+delay height can never have been reached
        block_ok = ph + db < U64 and selfh >= (prev, ph + db)
    want = "ok" if (time_ok and block_ok) else "err"
    if r["out"] != want:
        return ("verifyDelayPeriodPassed(processedTime=%s, processedHeight=%s, now=%d, self=%s, delayTime=%d, delayBlocks=%d) = %s; "
                "exact integer comparison (inclusive bounds) requires %s" % (i["pt"], i["ph"], now, selfh, dt, db, r["out"], want))

# ---- histories (C20 C22 C23) -------------------------------------------------------------------

OUT = {"ok": "Ok", "err": "Err", "panic": "Panic"}

def Nx(x):
    x = int(x)
    return "%d" % x if x < 1000 else "0x%x" % x

class Memo:
    """per-record literal tables: numerals, heights, byte strings, consensus states and store entries repeat in
    every observation of a history; each distinct one is written once into a table (tn, tb, th, tc, te) and
    referred to by position (literals are the expensive part of type-checking the generated file)"""
    def __init__(self):
        self.tabs = {k: ({}, []) for k in ("n", "b", "h", "c", "e")}
    def idx(self, tab, term):
        d, l = self.tabs[tab]
        i = d.get(term)
        if i is None:
            i = len(l); d[term] = i; l.append(term)
        return "%d%%nat" % i
    def wrap(self, body):
        t = self.tabs
        return ("(let tn : list N := %s in\n  let tb : list bytes := %s in\n  let th : list Height := %s in\n"
                "  let tc : list ConsState := %s in\n  let te : TmStore := %s in\n  %s)" % (
                    lst(t["n"][1], str), lst(t["b"][1], str), lst(t["h"][1], str), lst(t["c"][1], str), lst(t["e"][1], str), body))
    # typed helpers
    def n(self, x):
        x = int(x)
        return "%d" % x if x < 1000 else "(gn tn %s)" % self.idx("n", "0x%x" % x)
    def z(self, x):
        return "(gz tn %s)" % self.idx("n", "0x%x" % int(x))
    def h(self, hh):
        return "(gh th %s)" % self.idx("h", "(mkH %s %s)" % (self.n(hh[0]), self.n(hh[1])))
    def hx(self, s):
        return "(gb tb %s)" % self.idx("b", hx(s))
    def cons(self, c):
        return "(gc tc %s)" % self.idx("c", "(mkCons %s %s %s)" % (self.z(c[0]), self.hx(c[1]), self.hx(c[2])))
    def client(self, c):
        return "(mkClient %s %s %s)" % (self.h(c[0]), b(c[1]), self.z(c[2]))
    def ctx(self, op):
        return "(mkCtx %s %s)" % (self.z(op["now"]), self.h(op["self"]))
    def val(self, v):
        if v[0] == "client":
            return "(VClient %s)" % self.client(v[1:])
        if v[0] == "cons":
            return "(VCons %s)" % self.cons(v[1:])
        return "(VRaw %s)" % self.hx(v[1])
    def entry(self, kv):
        return "(ge te %s)" % self.idx("e", "(%s, %s)" % (self.hx(kv[0]), self.val(kv[1])))
    def probe(self, p):
        if p == "panic":
            return "None"
        return "(Some (%s, %s))" % (opt(p[0], self.cons), opt(p[1], self.cons))

def op_t(m, op):
    k = op["op"]
    if k == "init":
        return "(AInit %s %s %s)" % (m.ctx(op), m.client(op["client"]), m.cons(op["cons"]))
    if k == "update":
        h = op["hdr"]
        return "(ACl %s (OUpdate (MHeader (mkHdr %s %s %s %s %s %s))))" % (
            m.ctx(op), m.h(h["h"]), m.h(h["th"]), m.z(h["ts"]), m.hx(h["root"]), m.hx(h["nvh"]), N(1 if h["ok"] else 0))
    if k == "misb":
        mb = op["misb"]
        return "(ACl %s (OUpdate (MMisb (mkMisb %s %s %s %s %s %s %s %s %s))))" % (
            m.ctx(op), m.h(mb["h1"]), m.h(mb["h2"]), m.z(mb["t1"]), m.z(mb["t2"]), m.h(mb["th1"]), m.h(mb["th2"]),
            b(mb["ids_ok"]), b(mb["differs"]), N(1 if mb["ok"] else 0))
    if k == "recover":
        sb = op["sub"]
        return "(ACl %s (ORecover (mkSubst %s %s %s %s %s)))" % (
            m.ctx(op), m.client(sb["client"]), opt(sb["cons"], m.cons), opt(sb["ph"], m.h), opt(sb["pt"], m.n), b(sb["matching"]))
    if k == "upgrade":
        u = op["upg"]
        return "(ACl %s (OUpgrade (mkUpg %s %s %s %s %s)))" % (
            m.ctx(op), m.h(u["latest"]), m.z(u["ts"]), m.hx(u["nvh"]), m.z(u["tp"]), N(1 if u["ok"] else 0))
    if k == "prune":
        return "(ACl %s OPrune)" % m.ctx(op)
    if k == "pruneall":
        return "(ACl %s OPruneAll)" % m.ctx(op)
    if k == "setclient":
        return "(ARaw (RSetClient %s))" % m.client(op["client"])
    if k == "setcons":
        return "(ARaw (RSetCons %s %s))" % (m.h(op["h"]), m.cons(op["cons"]))
    if k == "delcons":
        return "(ARaw (RDelCons %s))" % m.h(op["h"])
    if k == "setmeta":
        return "(ARaw (RSetMeta %s %s %s))" % (m.h(op["h"]), m.h(op["ph"]), m.n(op["pt"]))
    if k == "delmeta":
        return "(ARaw (RDelMeta %s))" % m.h(op["h"])
    if k == "setraw":
        return "(ARaw (RSetRaw %s %s))" % (m.hx(op["key"]), m.hx(op["val"]))
    if k == "delkey":
        return "(ARaw (RDelKey %s))" % m.hx(op["key"])
    raise ValueError("unknown op " + k)

def enc_hist(r):
    m = Memo()
    steps = []
    for op, ob in zip(r["in"], r["out"]):
        obs = "(mkObs %s %s %s)" % (OUT[ob["out"]], lst(ob["store"], m.entry), lst(ob["probes"], m.probe))
        steps.append("(%s, %s, %s)" % (op_t(m, op), lst(op["probes"], m.h), obs))
    return m.wrap("Hist [\n    " + ";\n    ".join(steps) + "]")

# ---- monitors: the properties evaluated on what the implementation did (no model involved) -----------

ITER_PREFIX = b"iterateConsensusStates"
CONS_PREFIX = b"consensusStates/"

def parse_height_text(t):
    parts = t.split(b"-")
    if len(parts) != 2 or not all(p.isdigit() for p in parts):
        return None
    return (int(parts[0]), int(parts[1]))

class View:
    """a client-store dump read independently of the model"""
    def __init__(self, store):
        self.client = None
        self.cons, self.ptime, self.pheight = {}, {}, {}
        self.iters = []          # (height, value bytes) in the store's iteration order
        self.other = []
        for khex, v in store:
            k = bytes.fromhex(khex)
            if k == b"clientState" and v[0] == "client":
                self.client = dict(latest=(int(v[1][0]), int(v[1][1])), frozen=bool(v[2]), tp=int(v[3]))
            elif k.startswith(ITER_PREFIX) and len(k) == len(ITER_PREFIX) + 16 and v[0] == "raw":
                be = k[len(ITER_PREFIX):]
                self.iters.append(((int.from_bytes(be[:8], "big"), int.from_bytes(be[8:], "big")), bytes.fromhex(v[1])))
            elif k.startswith(CONS_PREFIX):
                rest = k[len(CONS_PREFIX):]
                if b"/" not in rest and v[0] == "cons" and parse_height_text(rest) is not None:
                    self.cons[parse_height_text(rest)] = (int(v[1]), v[2], v[3])
                elif rest.endswith(b"/processedTime") and v[0] == "raw" and parse_height_text(rest[:-14]) is not None:
                    self.ptime[parse_height_text(rest[:-14])] = v[1]
                elif rest.endswith(b"/processedHeight") and v[0] == "raw" and parse_height_text(rest[:-16]) is not None:
                    self.pheight[parse_height_text(rest[:-16])] = v[1]
                else:
                    self.other.append(khex)
            else:
                self.other.append(khex)
    def consistent(self):
        hs = set(self.cons)
        if not (hs == set(self.ptime) == set(self.pheight) == set(h for h, _ in self.iters)):
            return False
        if len(self.iters) != len(hs) or self.other:
            return False
        return all(v == CONS_PREFIX + b"%d-%d" % h for h, v in self.iters)
    def status(self, now):
        if self.client is None:
            return "unknown"
        if self.client["frozen"]:
            return "frozen"
        c = self.cons.get(self.client["latest"])
        if c is None or c[0] + self.client["tp"] <= now:
            return "expired"
        return "active"

def neighbours(cons, h):
    below = [x for x in cons if x < h]
    above = [x for x in cons if x > h]
    return (max(below) if below else None, min(above) if above else None)

def mono(cons):
    hs = sorted(cons)
    return all(cons[a][0] < cons[b_][0] for a, b_ in zip(hs, hs[1:]))

def spec_hist(r, pid):
    client_hist = r["k"] == "client_hist"
    pre = View([])
    for i, (op, ob) in enumerate(zip(r["in"], r["out"])):
        post = View(ob["store"])
        k = op["op"]
        where = "history step %d (%s%s)" % (i, k, "/" + op["tag"] if op.get("tag") else "")
        now = int(op["now"]) if "now" in op else None
        if pid == "C22":
            hs = [h for h, _ in post.iters]
            if any(not (a < b_) for a, b_ in zip(hs, hs[1:])):
                return "%s: ascending iteration is not in (revision, height) order: %s" % (where, hs)
            if client_hist:
                if not post.consistent():
                    return ("%s: metadata not one-to-one with consensus states: cons=%s processedTime=%s processedHeight=%s iteration=%s other=%s"
                            % (where, sorted(post.cons), sorted(post.ptime), sorted(post.pheight), post.iters, post.other))
            if post.consistent():
                for ph, res in zip(op["probes"], ob["probes"]):
                    h = (int(ph[0]), int(ph[1]))
                    if res == "panic":
                        return "%s: neighbour lookup for %s panicked" % (where, h)
                    lo, hi = neighbours(post.cons, h)
                    want = [list(map(str, post.cons[hi][:1])) + list(post.cons[hi][1:]) if hi is not None else None,
                            list(map(str, post.cons[lo][:1])) + list(post.cons[lo][1:]) if lo is not None else None]
                    if res != want:
                        return "%s: GetNext/GetPrevious(%s) = %s, true neighbours are next=%s prev=%s" % (where, h, res, hi, lo)
            if k in ("prune", "update") and pre.consistent() and pre.client is not None and ob["out"] == "ok":
                removed = [h for h in pre.cons if h not in post.cons]
                if removed:
                    oldest = min(pre.cons)
                    if removed != [oldest]:
                        return "%s: pruning removed %s, the oldest stored height is %s" % (where, removed, oldest)
                    if pre.cons[oldest][0] + pre.client["tp"] > now:
                        return "%s: pruned consensus state %s was not expired (ts %d + trusting %d > now %d)" % (
                            where, oldest, pre.cons[oldest][0], pre.client["tp"], now)
                    if oldest in post.ptime or oldest in post.pheight or oldest in [h for h, _ in post.iters]:
                        return "%s: pruned height %s left metadata behind" % (where, oldest)
        if pid == "C20" and client_hist and k != "init":
            for h, c in pre.cons.items():
                if h in post.cons:
                    if post.cons[h] != c:
                        return "%s: consensus state at %s changed from %s to %s" % (where, h, c, post.cons[h])
                elif pre.client is None or c[0] + pre.client["tp"] > now:
                    return "%s: consensus state at %s was removed although not expired" % (where, h)
            if k == "misb" and post.cons != pre.cons:
                return "%s: a misbehaviour message changed the consensus states" % where
            if k == "update" and op["hdr"]["ok"] and pre.status(now) == "active":
                hd = op["hdr"]
                h = (int(hd["h"][0]), int(hd["h"][1]))
                hc = (int(hd["ts"]), hd["root"], hd["nvh"])
                if h in pre.cons and pre.cons[h] == hc:
                    if ob["out"] != "ok" or post.client["frozen"]:
                        return "%s: resubmitted header was not a no-op (outcome %s, frozen %s)" % (where, ob["out"], post.client["frozen"])
                    if post.cons.get(h) != hc or post.ptime.get(h) != pre.ptime.get(h) or post.pheight.get(h) != pre.pheight.get(h):
                        return "%s: resubmitted header changed the stored state or metadata at %s" % (where, h)
                if h in pre.cons and pre.cons[h] != hc:
                    if ob["out"] != "ok" or not post.client["frozen"] or post.cons != pre.cons:
                        return "%s: conflicting header for stored height %s did not freeze the client with consensus states unchanged" % (where, h)
        if pid == "C23" and client_hist and k in ("update", "misb", "prune", "pruneall"):
            if k == "update" and ob["out"] == "ok":
                hd = op["hdr"]
                h = (int(hd["h"][0]), int(hd["h"][1]))
                ts = int(hd["ts"])
                if h not in pre.cons and h in post.cons:
                    lo, hi = neighbours(post.cons, h)
                    if (lo is not None and not post.cons[lo][0] < post.cons[h][0]) or (hi is not None and not post.cons[h][0] < post.cons[hi][0]):
                        return "%s: stored consensus state at %s has a timestamp not strictly between its neighbours %s/%s" % (where, h, lo, hi)
                if h not in pre.cons and hd["ok"] and pre.status(now) == "active":
                    lo, hi = neighbours(pre.cons, h)
                    bad = (lo is not None and pre.cons[lo][0] >= ts) or (hi is not None and pre.cons[hi][0] <= ts)
                    if bad and (not post.client["frozen"] or post.cons != pre.cons):
                        return "%s: header time %d at %s outside neighbours' range did not freeze the client with consensus states unchanged" % (where, ts, h)
            if mono(pre.cons) and post.client is not None and not post.client["frozen"] and not mono(post.cons):
                return "%s: timestamps no longer increase with height: %s" % (where, sorted((h, c[0]) for h, c in post.cons.items()))
        pre = post
    return None

KINDS = {
    "block_delay": dict(props=["C19"], enc=enc_block_delay, spec=spec_block_delay, exact=True),
    "delay_passed": dict(props=["C19"], enc=enc_delay_passed, spec=spec_delay_passed, exact=True),
    "store_hist": dict(props=["C22"], enc=enc_hist, spec=spec_hist, spec_takes_pid=True, exact=False),
    "client_hist": dict(props=["C20", "C22", "C23"], enc=enc_hist, spec=spec_hist, spec_takes_pid=True, exact=False),
}

MONITORS = {}
KNOWN = {}
