"""`tmstore` family: 07-tendermint client store and update logic (C19 C20 C22 C23)."""
from lib.coqgen import N, Z, b, hx, opt, lst, height

NAME = "tmstore"
GO_PKG = "./tmstore"
COQ_IMPORTS = "From IBC Require Import Lib.Bytes Lib.Dec Lib.CorrLib Core.Height TmStore.KV TmStore.Store TmStore.Client Corr.TmStore."
CASE_TYPE = "Case"
CHECK = "check"

U64 = 1 << 64

# ---- C19 -------------------------------------------------------------------------------------

def enc_block_delay(r):
    d, p = r["in"]
    return "BlockDelay %s %s %s" % (N(d), N(p), "None" if r["out"] == "panic" else "(Some %s)" % N(r["out"]))

def spec_block_delay(r):
    d, p = int(r["in"][0]), int(r["in"][1])
    if r["out"] == "panic":
        return "getBlockDelay(%d, %d) panicked" % (d, p)
    want = 0 if p == 0 else -(-d // p)
    if int(r["out"]) != want:
        return "getBlockDelay(delay=%d, maxExpectedTimePerBlock=%d) = %s, exact ceiling is %d" % (d, p, r["out"], want)

def enc_delay_passed(r):
    i = r["in"]
    return "DelayPassed %s %s %s %s %s %s %s" % (
        opt(i["pt"], N), opt(i["ph"], height), N(i["now"]), height(i["self"]), N(i["dt"]), N(i["db"]), b(r["out"] == "ok"))

def spec_delay_passed(r):
    i = r["in"]
    now, dt, db = int(i["now"]), int(i["dt"]), int(i["db"])
    selfh = (int(i["self"][0]), int(i["self"][1]))
    time_ok = dt == 0 or (i["pt"] is not None and int(i["pt"]) + dt <= now)
    if db == 0:
        block_ok = True
    elif i["ph"] is None:
        block_ok = False
    else:
        prev, ph = int(i["ph"][0]), int(i["ph"][1])
        # an unrepresentable processed+delay height can never have been reached
        block_ok = ph + db < U64 and selfh >= (prev, ph + db)
    want = "ok" if (time_ok and block_ok) else "err"
    if r["out"] != want:
        return ("verifyDelayPeriodPassed(processedTime=%s, processedHeight=%s, now=%d, self=%s, delayTime=%d, delayBlocks=%d) = %s; "
                "exact integer comparison (inclusive bounds) requires %s" % (i["pt"], i["ph"], now, selfh, dt, db, r["out"], want))

# ---- histories (C20 C22 C23) -------------------------------------------------------------------

OUT = {"ok": "Ok", "err": "Err", "panic": "Panic"}

def Nx(x):
    x = int(x)
    return "%d" % x if x < 1000 else "0x%x" % x

class Memo:
    """per-record literal tables: numerals, heights, byte strings, consensus states and store entries repeat in
    every observation of a history; each distinct one is written once into a table (tn, tb, th, tc, te) and
    referred to by position (literals are the expensive part of type-checking the generated file)"""
    def __init__(self):
        self.tabs = {k: ({}, []) for k in ("n", "b", "h", "c", "e")}
    def idx(self, tab, term):
        d, l = self.tabs[tab]
        i = d.get(term)
        if i is None:
            i = len(l); d[term] = i; l.append(term)
        return "%d%%nat" % i
    def wrap(self, body):
        t = self.tabs
        return ("(let tn : list N := %s in\n  let tb : list bytes := %s in\n  let th : list Height := %s in\n"
                "  let tc : list ConsState := %s in\n  let te : TmStore := %s in\n  %s)" % (
                    lst(t["n"][1], str), lst(t["b"][1], str), lst(t["h"][1], str), lst(t["c"][1], str), lst(t["e"][1], str), body))
    # typed helpers
    def n(self, x):
        x = int(x)
        return "%d" % x if x < 1000 else "(gn tn %s)" % self.idx("n", "0x%x" % x)
    def z(self, x):
        return "(gz tn %s)" % self.idx("n", "0x%x" % int(x))
    def h(self, hh):
        return "(gh th %s)" % self.idx("h", "(mkH %s %s)" % (self.n(hh[0]), self.n(hh[1])))
    def hx(self, s):
        return "(gb tb %s)" % self.idx("b", hx(s))
    def cons(self, c):
        return "(gc tc %s)" % self.idx("c", "(mkCons %s %s %s)" % (self.z(c[0]), self.hx(c[1]), self.hx(c[2])))
    def client(self, c):
        return "(mkClient %s %s %s)" % (self.h(c[0]), b(c[1]), self.z(c[2]))
    def ctx(self, op):
        return "(mkCtx %s %s)" % (self.z(op["now"]), self.h(op["self"]))
    def val(self, v):
        if v[0] == "client":
            return "(VClient %s)" % self.client(v[1:])
        if v[0] == "cons":
            return "(VCons %s)" % self.cons(v[1:])
        return "(VRaw %s)" % self.hx(v[1])
    def entry(self, kv):
        return "(ge te %s)" % self.idx("e", "(%s, %s)" % (self.hx(kv[0]), self.val(kv[1])))
    def probe(self, p):
        if p == "panic":
            return "None"
        return "(Some (%s, %s))" % (opt(p[0], self.cons), opt(p[1], self.cons))

def op_t(m, op):
    k = op["op"]
    if k == "init":
        return "(AInit %s %s %s)" % (m.ctx(op), m.client(op["client"]), m.cons(op["cons"]))
    if k == "update":
        h = op["hdr"]
        return "(ACl %s (OUpdate (MHeader (mkHdr %s %s %s %s %s %s))))" % (
            m.ctx(op), m.h(h["h"]), m.h(h["th"]), m.z(h["ts"]), m.hx(h["root"]), m.hx(h["nvh"]), N(1 if h["ok"] else 0))
    if k == "misb":
        mb = op["misb"]
        return "(ACl %s (OUpdate (MMisb (mkMisb %s %s %s %s %s %s %s %s %s))))" % (
            m.ctx(op), m.h(mb["h1"]), m.h(mb["h2"]), m.z(mb["t1"]), m.z(mb["t2"]), m.h(mb["th1"]), m.h(mb["th2"]),
            b(mb["ids_ok"]), b(mb["differs"]), N(1 if mb["ok"] else 0))
    if k == "recover":
        sb = op["sub"]
        return "(ACl %s (ORecover (mkSubst %s %s %s %s %s)))" % (
            m.ctx(op), m.client(sb["client"]), opt(sb["cons"], m.cons), opt(sb["ph"], m.h), opt(sb["pt"], m.n), b(sb["matching"]))
    if k == "prune":
        return "(ACl %s OPrune)" % m.ctx(op)
    if k == "pruneall":
        return "(ACl %s OPruneAll)" % m.ctx(op)
    if k == "setclient":
        return "(ARaw (RSetClient %s))" % m.client(op["client"])
    if k == "setcons":
        return "(ARaw (RSetCons %s %s))" % (m.h(op["h"]), m.cons(op["cons"]))
    if k == "delcons":
        return "(ARaw (RDelCons %s))" % m.h(op["h"])
    if k == "setmeta":
        return "(ARaw (RSetMeta %s %s %s))" % (m.h(op["h"]), m.h(op["ph"]), m.n(op["pt"]))
    if k == "delmeta":
        return "(ARaw (RDelMeta %s))" % m.h(op["h"])
    if k == "setraw":
        return "(ARaw (RSetRaw %s %s))" % (m.hx(op["key"]), m.hx(op["val"]))
    if k == "delkey":
        return "(ARaw (RDelKey %s))" % m.hx(op["key"])
    raise ValueError("unknown op " + k)

def enc_hist(r):
    m = Memo()
    steps = []
    for op, ob in zip(r["in"], r["out"]):
        obs = "(mkObs %s %s %s)" % (OUT[ob["out"]], lst(ob["store"], m.entry), lst(ob["probes"], m.probe))
        steps.append("(%s, %s, %s)" % (op_t(m, op), lst(op["probes"], m.h), obs))
    return m.wrap("Hist [\n    " + ";\n    ".join(steps) + "]")

KINDS = {
    "block_delay": dict(props=["C19"], enc=enc_block_delay, spec=spec_block_delay, exact=True),
    "delay_passed": dict(props=["C19"], enc=enc_delay_passed, spec=spec_delay_passed, exact=True),
    "store_hist": dict(props=["C22"], enc=enc_hist, spec=None, exact=False),
    "client_hist": dict(props=["C20", "C22", "C23"], enc=enc_hist, spec=None, exact=False),
}

MONITORS = {}
KNOWN = {}
