"""`purekeys` family: identifiers (C15), store keys (C16), commitments (C07), port routers (C48).

Encoders turn a trace record into a Gallina term of type Corr.PureKeys.Case.  Monitors re-evaluate the property
text on what the implementation returned, independently of the Coq model (hashlib, Python ints, plain string
operations), so that a violation comes with a concrete failing input."""
import hashlib, re, itertools
from lib.coqgen import N, b, hx, opt, lst

NAME = "purekeys"
GO_PKG = "./purekeys"
COQ_IMPORTS = ("From IBC Require Import Lib.Bytes Lib.Dec Lib.BE64 Lib.CorrLib Core.Height Keys.Ident Keys.StoreKeys Keys.Commit Keys.Router Corr.PureKeys.")
CASE_TYPE = "Case"
CHECK = "check"

U64 = 1 << 64


def unhex(h):
    return bytes.fromhex(h)


def pair_bn(p):
    return "(%s, %s)" % (hx(p[0]), N(p[1]))


# ---- C15 -------------------------------------------------------------------------------------

def enc_blank(r):
    return "Blank %s %s" % (hx(r["in"]), b(r["out"]))


def enc_valid_id(r):
    return "ValidId %s %s" % (hx(r["in"]), " ".join(b(x) for x in r["out"]))


def enc_client_type(r):
    return "ClientType %s %s" % (hx(r["in"]), b(r["out"]))


def spec_client_type(r):
    """C15: every identifier generated for a registrable client type passes the identifier validation for every
    sequence, including the 20-digit ones: an accepted type T must leave room for "-" and 20 digits within 64
    characters (len(T) <= 43) and, with them, stay within the 4..64 bound"""
    t = unhex(r["in"])
    if r["out"] and len(t) + 1 + 20 > 64:
        return "client type %r (%d characters) is accepted as registrable, but its identifier for a 20-digit sequence has %d characters (> 64) and fails the identifier validation" % (
            t, len(t), len(t) + 21)


def enc_client_fmt(r):
    return "ClientFmt %s %s %s" % (hx(r["in"][0]), N(r["in"][1]), hx(r["out"]))


def enc_client_parse(r):
    o = r["out"]
    return "ClientParse %s %s %s %s %s" % (hx(r["in"]), b(o[0]), opt(o[1], pair_bn), b(o[2]), b(o[3]))


def enc_client_roundtrip(r):
    o = r["out"]
    return "ClientRoundtrip %s %s %s %s %s %s %s" % (hx(r["in"][0]), N(r["in"][1]), b(o[0]), hx(o[1]), opt(o[2], pair_bn), b(o[3]), b(o[4]))


def enc_cc_roundtrip(name):
    def f(r):
        o = r["out"]
        return "%s %s %s %s %s %s" % (name, N(r["in"]), hx(o[0]), opt(o[1], N), b(o[2]), b(o[3]))
    return f


def enc_cc_fmt(name):
    return lambda r: "%s %s %s" % (name, N(r["in"]), hx(r["out"]))


def enc_cc_parse(name):
    def f(r):
        o = r["out"]
        return "%s %s %s %s %s %s" % (name, hx(r["in"]), b(o[0]), opt(o[1], N), b(o[2]), b(o[3]))
    return f


def enc_parse_ident(r):
    return "ParseIdent %s %s %s" % (hx(r["in"][0]), hx(r["in"][1]), opt(r["out"], N))


def enc_create(op):
    kind, t, commit = op
    if kind == "client":
        return "CreateClient %s %s" % (hx(t), b(commit))
    if kind == "connection":
        return "CreateConnection %s" % b(commit)
    if kind == "channel":
        return "CreateChannel %s" % b(commit)
    raise ValueError(kind)


def enc_counters(r):
    init, ops = r["in"]
    ids, final = r["out"]
    tri = lambda t: "(%s, %s, %s)" % (N(t[0]), N(t[1]), N(t[2]))
    return "CountersHist %s %s %s %s" % (tri(init), lst(ops, lambda o: "(" + enc_create(o) + ")"),
                                         lst(ids, lambda x: "(%s, %s)" % (hx(x[0]), b(x[1]))), tri(final))


# monitors (the property text evaluated on the implementation's outputs)

def spec_client_roundtrip(r):
    ct, seq = unhex(r["in"][0]), int(r["in"][1])
    type_ok, idh, res, valid, hostvalid = r["out"]
    if not type_ok:
        return None      # the property speaks about registrable client types only
    if res is None:
        return "ParseClientIdentifier rejects the formatted identifier %r of valid client type %r" % (unhex(idh), ct)
    if unhex(res[0]) != ct or int(res[1]) != seq:
        return "format then parse of (%r, %d) returned (%r, %s) via %r" % (ct, seq, unhex(res[0]), res[1], unhex(idh))
    if not valid or not hostvalid:
        return "generated client identifier %r fails validation (IsValidClientID=%s, ClientIdentifierValidator ok=%s)" % (unhex(idh), valid, hostvalid)


def spec_cc_roundtrip(what):
    def f(r):
        seq = int(r["in"])
        idh, res, valid, hostvalid = r["out"]
        if res is None or int(res) != seq:
            return "%s: format then parse of sequence %d returned %s via %r" % (what, seq, res, unhex(idh))
        if not valid or not hostvalid:
            return "%s: generated identifier %r fails validation (IsValid=%s, host validator ok=%s)" % (what, unhex(idh), valid, hostvalid)
    return f


def _tail_digits(bs, sep=b"-"):
    i = bs.rfind(sep)
    return bs[i + 1:] if i >= 0 else None


def spec_client_parse(r):
    idb = unhex(r["in"])
    fmt, res, valid, hostvalid = r["out"]
    if res is None:
        return None
    seq = int(res[1])
    if seq >= U64:
        return "ParseClientIdentifier(%r) returned sequence %d outside 64 bits" % (idb, seq)
    if idb == b"09-localhost":
        return None
    d = _tail_digits(idb)
    if d is None or not d.isdigit() or not d.isascii() or int(d) != seq:
        return "ParseClientIdentifier(%r) accepted with sequence %d, but the identifier's sequence part is %r" % (idb, seq, d)
    if int(d) >= U64:
        return "ParseClientIdentifier accepted %r whose sequence does not fit in 64 bits" % idb


def spec_cc_parse(prefix):
    def f(r):
        idb = unhex(r["in"])
        fmt, res, valid, hostvalid = r["out"]
        if res is None:
            return None
        seq = int(res)
        d = idb[len(prefix):] if idb.startswith(prefix) else None
        if d is None or not d.isdigit() or not d.isascii() or int(d) != seq or seq >= U64:
            return "sequence parser accepted %r with sequence %d (sequence part %r; must be its decimal value below 2^64)" % (idb, seq, d)
    return f


def spec_parse_ident(r):
    idb, pre = unhex(r["in"][0]), unhex(r["in"][1])
    if r["out"] is None:
        return None
    seq = int(r["out"])
    d = idb[len(pre):] if idb.startswith(pre) else None
    if d is None or not d.isdigit() or not d.isascii() or int(d) != seq or seq >= U64:
        return "ParseIdentifier(%r, %r) accepted with sequence %d" % (idb, pre, seq)


def spec_counters(r):
    init, ops = r["in"]
    ids, final = r["out"]
    names = ["client", "connection", "channel"]
    created = {k: [] for k in names}
    cnt = {k: 0 for k in names}
    for (kind, _t, commit), (idh, valid) in zip(ops, ids):
        if not valid:
            return "generated %s identifier %r fails the chain's identifier validation" % (kind, unhex(idh))
        if commit:
            if idh in created[kind]:
                return "%s identifier %r was handed to two created objects in one history" % (kind, unhex(idh))
            created[kind].append(idh)
            cnt[kind] += 1
    for i, k in enumerate(names):
        if int(final[i]) != (int(init[i]) + cnt[k]) % U64:
            return "%s counter went from %s to %s over %d committed creations" % (k, init[i], final[i], cnt[k])


# ---- C16 -------------------------------------------------------------------------------------

# kind -> (arity description, Gallina constructor / function); 'K' entries are [encode] of a structured key
KEY_KINDS = {
    "channelEnd": ("K", "KChannelEnd %s %s", "bb"),
    "nextRecv": ("K", "KNextRecv %s %s", "bb"),
    "nextAck": ("K", "KNextAck %s %s", "bb"),
    "recvStart": ("K", "KRecvStart %s %s", "bb"),
    "commit": ("K", "KCommit %s %s %s", "bbn"),
    "ack": ("K", "KAck %s %s %s", "bbn"),
    "receipt": ("K", "KReceipt %s %s %s", "bbn"),
    "connection": ("K", "KConnEnd %s", "b"),
    "nextSend": ("K", "KNextSend %s", "b"),
    "client": ("K", "KClientStore %s %s", "bb"),
    "commit2": ("K", "K2 V2Commitment %s %s", "bn"),
    "receipt2": ("K", "K2 V2Receipt %s %s", "bn"),
    "ack2": ("K", "K2 V2Ack %s %s", "bn"),
    "async": ("K", "KAsync %s %s", "bn"),
    "alias": ("K", "KAlias %s", "b"),
    "commitPrefix": ("F", "packet_commitment_prefix_key %s %s", "bb"),
    "ackPrefix": ("F", "packet_acknowledgement_prefix_key %s %s", "bb"),
    "channelPath": ("F", "channel_path %s %s", "bb"),
    "filteredPort": ("F", "filtered_port_prefix %s", "b"),
    "clientState": ("F", "full_client_state_key %s", "b"),
    "consensusState": ("F", "full_consensus_state_key %s (mkH %s %s)", "bnn"),
    "clientConnections": ("F", "client_connections_key %s", "b"),
    "prefixedClientStore": ("F", "prefixed_client_store_key %s", "b"),
    "commit2Prefix": ("F", "v2_prefix_key V2Commitment %s", "b"),
    "receipt2Prefix": ("F", "v2_prefix_key V2Receipt %s", "b"),
    "ack2Prefix": ("F", "v2_prefix_key V2Ack %s", "b"),
    "asyncPrefix": ("F", "async_packet_prefix_key %s", "b"),
}
SINGLES = {b"nextClientSequence": "SNextClientSeq", b"nextConnectionSequence": "SNextConnectionSeq",
           b"nextChannelSequence": "SNextChannelSeq", b"clientParams": "SClientParams", b"connectionParams": "SConnectionParams"}


def _args(fmt, args):
    return tuple(hx(a) if f == "b" else N(a) for f, a in zip(fmt, args))


def enc_key(r):
    kind, args = r["in"][0], r["in"][1:]
    if kind == "single":
        return "KeyOf (KSingle %s) %s" % (SINGLES[unhex(args[0])], hx(r["out"]))
    tp, pat, fmt = KEY_KINDS[kind]
    term = pat % _args(fmt, args)
    return ("KeyOf (%s) %s" if tp == "K" else "KeyEq (%s) %s") % (term, hx(r["out"]))


def _store_key(w):
    kind, p, idh, s = w
    return {
        "commit": "KCommit %s %s %s" % (hx(p), hx(idh), N(s)),
        "ack": "KAck %s %s %s" % (hx(p), hx(idh), N(s)),
        "receipt": "KReceipt %s %s %s" % (hx(p), hx(idh), N(s)),
        "commit2": "K2 V2Commitment %s %s" % (hx(idh), N(s)),
        "receipt2": "K2 V2Receipt %s %s" % (hx(idh), N(s)),
        "ack2": "K2 V2Ack %s %s" % (hx(idh), N(s)),
        "async": "KAsync %s %s" % (hx(idh), N(s)),
    }[kind]


def _query(q):
    kind, p, idh = q
    return {
        "commit": "QCommit1 %s %s" % (hx(p), hx(idh)),
        "commit2": "Q2 V2Commitment %s" % hx(idh),
        "receipt2": "Q2 V2Receipt %s" % hx(idh),
        "ack2": "Q2 V2Ack %s" % hx(idh),
        "async": "QAsync %s" % hx(idh),
    }[kind]


def enc_iter(r):
    writes, q = r["in"]
    return "Iter %s (%s) %s" % (lst(writes or [], lambda w: "(" + _store_key(w) + ")"), _query(q),
                                opt(r["out"], lambda l: lst(l, N)))


def enc_client_store_write(r):
    idh, sub = r["in"]
    out = r["out"] or []
    if len(out) != 1:
        raise ValueError("ClientStore write produced %d raw keys" % len(out))
    return "KeyEq (client_store_prefix %s ++ %s) %s" % (hx(idh), hx(sub), hx(out[0]))


OBJECT_KINDS = {"channelEnd", "nextRecv", "nextAck", "recvStart", "commit", "ack", "receipt", "connection", "nextSend",
                "client", "commit2", "receipt2", "ack2", "async", "alias", "single", "clientState", "consensusState",
                "clientConnections"}
V1_KINDS = {"channelEnd", "nextRecv", "nextAck", "recvStart", "commit", "ack", "receipt", "connection", "client"}
V2_KINDS = {"commit2", "receipt2", "ack2"}


def _canon_object(rin):
    """the protocol object a key record denotes (aliases of the same object map to the same tuple)"""
    kind, args = rin[0], list(rin[1:])
    if kind == "clientState":
        return ("client", args[0], b"clientState".hex())
    if kind == "clientConnections":
        return ("client", args[0], b"connections".hex())
    if kind == "consensusState":
        return ("client", args[0], (b"consensusStates/%d-%d" % (int(args[1]), int(args[2]))).hex())
    return tuple([kind] + args)


def monitor_keys(records, indices):
    """distinct protocol objects never share a store key (within the generated batch)"""
    bad = []
    seen = {}
    for r, i in zip(records, indices):
        if r["k"] != "key" or r["in"][0] not in OBJECT_KINDS:
            continue
        obj = _canon_object(r["in"])
        other = seen.get(r["out"])
        if other is None:
            seen[r["out"]] = (obj, i)
        elif other[0] != obj:
            kinds = {obj[0], other[0][0]}
            # documented guard: async/alias may collide only for never-generated identifiers containing '_'
            if kinds == {"async", "alias"}:
                al = obj if obj[0] == "alias" else other[0]
                if b"_" in unhex(al[1]):
                    continue
            bad.append((i, "store key collision: %s and %s both map to key %r" % (other[0], obj, unhex(r["out"]))))
    return bad


def spec_key(r):
    kind = r["in"][0]
    key = unhex(r["out"])
    if kind in V1_KINDS and kind != "client" and any(c < 0x20 for c in key):
        return "v1 key %r contains a control byte" % key
    if kind in V2_KINDS:
        idb = unhex(r["in"][1])
        want = {"commit2": 1, "receipt2": 2, "ack2": 3}[kind]
        if len(key) != len(idb) + 9 or key[:len(idb)] != idb or key[len(idb)] != want or \
                int.from_bytes(key[len(idb) + 1:], "big") != int(r["in"][2]):
            return "v2 key for (%s, %r, %s) is %r, not id || kind byte || 8-byte big-endian sequence" % (kind, idb, r["in"][2], key)


def spec_iter(r):
    writes, q = r["in"]
    qk, qp, qid = q
    want = sorted(int(w[3]) for w in (writes or []) if w[0] == qk and w[2] == qid and (qk != "commit" or w[1] == qp))
    got = None if r["out"] is None else [int(x) for x in r["out"]]
    if got == want:
        return None
    # documented guard (C16_async_alias_refuted / v2_prefix_refuted): identifiers containing '_' are accepted by the
    # validators but never generated; the key spaces of "<id>async_packet..." overlap
    if qk != "commit" and (b"_" in unhex(qid) or (qk == "async" and any(b"_" in unhex(w[2]) for w in writes or []))):
        return None
    return "prefix iteration %s for (%r, %r) over %d stored objects returned %s; that object's entries are %s" % (
        qk, unhex(qp), unhex(qid), len(writes or []), "a panic" if got is None else got, want)


def spec_client_store_write(r):
    idb, sub = unhex(r["in"][0]), unhex(r["in"][1])
    out = [unhex(x) for x in (r["out"] or [])]
    pre = b"clients/" + idb + b"/"
    if len(out) != 1 or not out[0].startswith(pre):
        return "a write through ClientStore(%r) touched raw keys %r outside its namespace %r" % (idb, out, pre)
    if out[0] != pre + sub:
        return "ClientStore(%r).Set(%r) wrote raw key %r" % (idb, sub, out[0])


# ---- C07 -------------------------------------------------------------------------------------

def enc_sha(r):
    return "Sha %s %s" % (hx(r["in"]), hx(r["out"]))


def enc_pkt1(r):
    ts, rn, rh, data = r["in"][:4]
    return "PktCommit1 %s %s %s %s %s" % (N(ts), N(rn), N(rh), hx(data), hx(r["out"]))


def enc_ack1(r):
    return "AckCommit1 %s %s" % (hx(r["in"]), hx(r["out"]))


def _payload(p):
    return "(mkPayload %s %s %s %s %s)" % tuple(hx(x) for x in p)


def enc_pkt2(r):
    seq, src, dest, ts, ps = r["in"]
    return "PktCommit2 %s %s %s %s" % (hx(dest), N(ts), lst(ps, _payload), hx(r["out"]))


def enc_ack2(r):
    return "AckCommit2 %s %s" % (lst(r["in"], hx), hx(r["out"]))


def _h(x):
    return hashlib.sha256(x).digest()


def spec_sha(r):
    if _h(unhex(r["in"])).hex() != r["out"]:
        return "sha256 of %r differs from hashlib" % unhex(r["in"])


def spec_pkt1(r):
    ts, rn, rh, data = r["in"][:4]
    want = _h(int(ts).to_bytes(8, "big") + int(rn).to_bytes(8, "big") + int(rh).to_bytes(8, "big") + _h(unhex(data)))
    if want.hex() != r["out"]:
        return "v1 CommitPacket(timestamp=%s, height=%s-%s, data=%r) = %s, the specification's formula gives %s" % (
            ts, rn, rh, unhex(data), r["out"], want.hex())


def spec_ack1(r):
    if _h(unhex(r["in"])).hex() != r["out"]:
        return "v1 CommitAcknowledgement(%r) = %s is not sha256(ack)" % (unhex(r["in"]), r["out"])


def _commit2(dest, ts, ps):
    app = b"".join(_h(b"".join(_h(unhex(f)) for f in p)) for p in ps)
    return _h(b"\x02" + _h(unhex(dest)) + _h(int(ts).to_bytes(8, "big")) + _h(app))


def spec_pkt2(r):
    seq, src, dest, ts, ps = r["in"]
    want = _commit2(dest, ts, ps)
    if want.hex() != r["out"]:
        return "v2 CommitPacket(dest=%r, timeout=%s, %d payloads) = %s, the specification's formula gives %s" % (
            unhex(dest), ts, len(ps), r["out"], want.hex())


def spec_ack2(r):
    want = _h(b"\x02" + b"".join(_h(unhex(a)) for a in r["in"]))
    if want.hex() != r["out"]:
        return "v2 CommitAcknowledgement(%d app acks) = %s, the specification's formula gives %s" % (len(r["in"]), r["out"], want.hex())


def _committed_fields(r):
    k = r["k"]
    if k == "pkt_commit1":
        return ("v1", tuple(r["in"][:4]))
    if k == "pkt_commit2":
        seq, src, dest, ts, ps = r["in"]
        return ("v2", dest, ts, tuple(tuple(p) for p in ps))
    if k == "ack_commit1":
        return ("ack1", r["in"])
    if k == "ack_commit2":
        return ("ack2", tuple(r["in"]))
    return None


def monitor_commitments(records, indices):
    """packets / acknowledgements differing in a committed field never share a commitment, and packets differing only
    in uncommitted fields do (determinism), within the generated batch"""
    bad = []
    by_out = {}
    by_fields = {}
    for r, i in zip(records, indices):
        f = _committed_fields(r)
        if f is None:
            continue
        o = by_out.get(r["out"])
        if o is None:
            by_out[r["out"]] = (f, i)
        elif o[0] != f and not (o[0][0] in ("ack1",) and f[0] in ("ack1",)):
            # (a v1 ack commitment is sha256(ack): equal commitments for different acks would be a SHA-256 collision)
            bad.append((i, "two inputs differing in a committed field share the commitment %s: %s vs %s (tag %s)" % (
                r["out"], str(o[0])[:200], str(f)[:200], r.get("tag"))))
        g = by_fields.get(f)
        if g is None:
            by_fields[f] = r["out"]
        elif g != r["out"]:
            bad.append((i, "the commitment is not a function of the committed fields alone: %s gives %s and %s" % (str(f)[:200], g, r["out"])))
    return bad


# ---- C48 -------------------------------------------------------------------------------------

def _op2(o):
    pre, name, mid = o
    return "(%s %s %s)" % ("AddP" if pre else "AddR", hx(name), N(mid))


def _res2(x):
    return "(%s, %s)" % (b(x[0]), opt(x[1], N))


def enc_router2(r):
    ops, perm, ports = r["in"]
    a1, r1, a2, r2 = r["out"]
    one = lambda o, a, rs: "(Router2Case %s %s %s %s)" % (lst(o, _op2), lst(ports, hx), lst(a, b), lst(rs, _res2))
    return "Both %s %s" % (one(ops, a1, r1), one(perm, a2, r2))


def _res1(x):
    return opt(x, N)


def _op1(o):
    sl, name, mid = o
    return "(%s, %s, %s)" % (b(sl), hx(name), N(mid))


def _match_v2(accepted_ops, port):
    """modules registered for a port by the accepted registrations: exact route or prefix route"""
    out = set()
    for pre, name, mid in accepted_ops:
        nb, pb = unhex(name), unhex(port)
        if (pre and pb.startswith(nb)) or (not pre and pb == nb):
            out.add(mid)
    return out


def spec_router2(r):
    ops, perm, ports = r["in"]
    a1, r1, a2, r2 = r["out"]
    for (o, a, rs, label) in ((ops, a1, r1, "first order"), (perm, a2, r2, "second order")):
        acc_ops = [x for x, ok in zip(o, a) if ok]
        for port, (has, got) in zip(ports, rs):
            ms = _match_v2(acc_ops, port)
            if len(ms) > 1:
                return "port %r matches %d registered modules %s after accepted registrations %s (%s): ambiguous route accepted" % (
                    unhex(port), len(ms), sorted(ms), [(p, unhex(nm), i) for p, nm, i in acc_ops], label)
            want = next(iter(ms)) if ms else None
            if got != want or has != (want is not None):
                return "port %r resolves to %s (HasRoute=%s) but the accepted registrations %s determine %s (%s)" % (
                    unhex(port), got, has, [(p, unhex(nm), i) for p, nm, i in acc_ops], want, label)
    if all(a1) != all(a2):
        return "the same registrations are all accepted in one order and not in the other: %s -> %s, %s -> %s" % (
            [(p, unhex(nm), i) for p, nm, i in ops], a1, [(p, unhex(nm), i) for p, nm, i in perm], a2)
    if all(a1) and r1 != r2:
        return "resolution depends on the registration order: %s vs %s" % (r1, r2)


def spec_router1(r):
    """the property text only: a registered exact name wins, the answer is one of the registered modules, and it
    does not depend on the registration order (the substring/sorted-key rule itself is left to the correspondence)"""
    ops, perm, ports = r["in"]
    a1, r1, k1, a2, r2, k2 = r["out"]
    accs = []
    for (o, a, rs, label) in ((ops, a1, r1, "first order"), (perm, a2, r2, "second order")):
        acc_ops = {}
        for (sl, nm, mid), ok in zip(o, a):
            if ok:
                if unhex(nm) in acc_ops:
                    return "route name %r was registered twice (%s)" % (unhex(nm), label)
                acc_ops[unhex(nm)] = mid
        accs.append(acc_ops)
        for port, got in zip(ports, rs):
            pb = unhex(port)
            if pb in acc_ops and got != acc_ops[pb]:
                return "v1 Route(%r) = %s although %r is registered for module %s (%s)" % (pb, got, pb, acc_ops[pb], label)
            if got is not None and got not in acc_ops.values():
                return "v1 Route(%r) = %s is not a registered module (%s)" % (pb, got, label)
    if accs[0] == accs[1] and r1 != r2:
        return "v1 routing of %s over the same routes %s depends on the registration order: %s vs %s" % (
            [unhex(p) for p in ports], accs[0], r1, r2)


def enc_router1(r):
    ops, perm, ports = r["in"]
    a1, r1, k1, a2, r2, k2 = r["out"]
    one = lambda o, a, rs, ks: "(Router1Case %s %s %s %s %s)" % (lst(o, _op1), lst(ports, hx), lst(a, b), lst(rs, _res1), lst(ks, hx))
    return "Both %s %s" % (one(ops, a1, r1, k1), one(perm, a2, r2, k2))


def nontrivial_accept(r):
    return r["out"][1] is not None


KINDS = {
    "blank": dict(props=["C15"], enc=enc_blank, spec=None, exact=False),
    "valid_id": dict(props=["C15", "C16"], enc=enc_valid_id, spec=None, exact=False),
    "client_type": dict(props=["C15"], enc=enc_client_type, spec=spec_client_type, exact=False),
    "client_fmt": dict(props=["C15"], enc=enc_client_fmt, spec=None, exact=False),
    "client_parse": dict(props=["C15"], enc=enc_client_parse, spec=spec_client_parse, exact=False),
    "client_roundtrip": dict(props=["C15"], enc=enc_client_roundtrip, spec=spec_client_roundtrip, exact=False,
                             nontrivial=lambda r: r["out"][0]),
    "chan_roundtrip": dict(props=["C15"], enc=enc_cc_roundtrip("ChanRoundtrip"), spec=spec_cc_roundtrip("channel"), exact=True),
    "conn_roundtrip": dict(props=["C15"], enc=enc_cc_roundtrip("ConnRoundtrip"), spec=spec_cc_roundtrip("connection"), exact=True),
    "chan_fmt": dict(props=["C15"], enc=enc_cc_fmt("ChanFmt"), spec=None, exact=False),
    "conn_fmt": dict(props=["C15"], enc=enc_cc_fmt("ConnFmt"), spec=None, exact=False),
    "chan_parse": dict(props=["C15"], enc=enc_cc_parse("ChanParse"), spec=spec_cc_parse(b"channel-"), exact=False),
    "conn_parse": dict(props=["C15"], enc=enc_cc_parse("ConnParse"), spec=spec_cc_parse(b"connection-"), exact=False),
    "parse_ident": dict(props=["C15"], enc=enc_parse_ident, spec=spec_parse_ident, exact=False),
    "counters": dict(props=["C15"], enc=enc_counters, spec=spec_counters, exact=True),
    "sha256": dict(props=["C07"], enc=enc_sha, spec=spec_sha, exact=False),
    "pkt_commit1": dict(props=["C07"], enc=enc_pkt1, spec=spec_pkt1, exact=True),
    "ack_commit1": dict(props=["C07", "C06"], enc=enc_ack1, spec=spec_ack1, exact=True),
    "pkt_commit2": dict(props=["C07"], enc=enc_pkt2, spec=spec_pkt2, exact=True),
    "ack_commit2": dict(props=["C07", "C06"], enc=enc_ack2, spec=spec_ack2, exact=True),
    "router2": dict(props=["C48"], enc=enc_router2, spec=spec_router2, exact=True,
                    nontrivial=lambda r: any(r["out"][0]) and not all(r["out"][0])),
    "router1": dict(props=["C48"], enc=enc_router1, spec=spec_router1, exact=False),
    "key": dict(props=["C16"], enc=enc_key, spec=spec_key, exact=False),
    "iter": dict(props=["C16"], enc=enc_iter, spec=spec_iter, exact=False, nontrivial=lambda r: bool(r["out"])),
    "client_store_write": dict(props=["C16"], enc=enc_client_store_write, spec=spec_client_store_write, exact=True),
}

MONITORS = {"C16": [monitor_keys], "C07": [monitor_commitments]}
KNOWN = {}
