"""`handshake` family: connection/channel handshakes between two chains + version negotiation functions."""
import re, json
from lib.coqgen import N, Z, b, hx, opt, lst

NAME = "handshake"
GO_PKG = "./handshake"
COQ_IMPORTS = "From IBC Require Import Lib.Bytes Lib.Dec Lib.CorrLib Core.Height Handshake.Version Handshake.Types Handshake.Model Handshake.World Corr.Handshake."
CASE_TYPE = "Case"
CHECK = "check"

_SAFE = re.compile(rb"^[A-Za-z0-9_\-\.]*$")

def bs(h):
    """hex -> bytes term; printable identifier-like strings as B "..." (shorter to parse)"""
    raw = bytes.fromhex(h)
    if _SAFE.match(raw):
        return '(B "%s")' % raw.decode()
    return hx(h)

def ver(v):
    return "(mkV %s %s)" % (bs(v[0]), lst(v[1], bs))

def vers(vs):
    return lst(vs, ver)

# ---- version functions: encoders ---------------------------------------------------------------

def enc_pick(r):
    sup, cp = r["in"]
    return "PickVersion %s %s %s" % (vers(sup), vers(cp), opt(r["out"], ver))

def enc_is_supported(r):
    sup, p = r["in"]
    ok, found = r["out"]
    return "IsSupported %s %s %s %s" % (vers(sup), ver(p), b(ok), opt(found, ver))

def enc_verify_proposed(r):
    v, p, f = r["in"]
    ok, feat, inter = r["out"]
    return "VerifyProposed %s %s %s %s %s %s" % (ver(v), ver(p), bs(f), b(ok), b(feat), lst(inter, bs))

def enc_validate_version(r):
    return "ValidateVersion %s %s" % (ver(r["in"]), b(r["out"]))


# ---- histories: encoder ---------------------------------------------------------------------------

CONN_STATE = {0: "CUninit", 1: "CInit", 2: "CTryOpen", 3: "COpen"}
CHAN_STATE = {0: "SUninit", 1: "SInit", 2: "STryOpen", 3: "SOpen", 4: "SClosed"}
ORDER = {0: "ONone", 1: "OUnordered", 2: "OOrdered"}

def conn_end(e):
    return "(mkConn %s %s %s %s %s %s %s)" % (CONN_STATE[e[0]], bs(e[1]), bs(e[2]), bs(e[3]), bs(e[4]), vers(e[5]), N(e[6]))

def chan_end(e):
    return "(mkChan %s %s %s %s %s %s)" % (CHAN_STATE[e[0]], ORDER[e[1]], bs(e[2]), bs(e[3]), lst(e[4], bs), bs(e[5]))

def conn_entry(x):
    return "(%s, %s)" % (bs(x[0]), conn_end(x[1]))

def chan_entry(x):
    return "((%s, %s), %s, (%s, %s, %s))" % (bs(x[0]), bs(x[1]), chan_end(x[2]), N(x[3][0]), N(x[3][1]), N(x[3][2]))

def side(c):
    return "true" if c else "false"

def proof_term(p, rev_cp):
    if "garbage" in p:
        return "(PGarbage %s)" % hx(p["garbage"])
    k = p["key"]
    key = "(KConn %s)" % bs(k[1]) if k[0] == "conn" else "(KChan %s %s)" % (bs(k[1]), bs(k[2]))
    return "(PHonest (mkH %s %s) %s)" % (N(rev_cp), N(p["h"]), key)

def hgt(h):
    return "(mkH %s %s)" % (N(h[0]), N(h[1]))

def app_ver(o):
    return "None" if o["app_fail"] else "(Some %s)" % bs(o["app_ver"])

def app_ok(o):
    return b(not o["app_fail"])

def op_term(o, revs):
    k = o["op"]; c = o["c"]
    rcp = revs[1 - c]
    D = "WDeliver %s " % side(c)
    if k == "conn_init":
        return D + "(MConnInit %s %s %s %s %s %s)" % (bs(o["client"]), bs(o["cp_client"]), bs(o["cp_conn"]), bs(o["cp_prefix"]), opt(o["version"], ver), N(o["delay"]))
    if k == "conn_try":
        return D + "(MConnTry %s %s %s %s %s %s %s %s)" % (bs(o["client"]), bs(o["cp_client"]), bs(o["cp_conn"]), bs(o["cp_prefix"]), vers(o["cp_versions"]), N(o["delay"]), proof_term(o["proof"], rcp), hgt(o["ph"]))
    if k == "conn_ack":
        return D + "(MConnAck %s %s %s %s %s)" % (bs(o["conn"]), bs(o["cp_conn"]), ver(o["version"]), proof_term(o["proof"], rcp), hgt(o["ph"]))
    if k == "conn_confirm":
        return D + "(MConnConfirm %s %s %s)" % (bs(o["conn"]), proof_term(o["proof"], rcp), hgt(o["ph"]))
    if k == "chan_init":
        return D + "(MChanInit %s %s %s %s %s %s %s %s)" % (bs(o["port"]), CHAN_STATE[o["state"]], ORDER[o["order"]], bs(o["cp_port"]), bs(o["cp_chan"]), lst(o["hops"], bs), bs(o["version"]), app_ver(o))
    if k == "chan_try":
        return D + "(MChanTry %s %s %s %s %s %s %s %s %s %s %s)" % (bs(o["port"]), CHAN_STATE[o["state"]], ORDER[o["order"]], bs(o["cp_port"]), bs(o["cp_chan"]), lst(o["hops"], bs), bs(o["version"]), bs(o["cp_version"]), proof_term(o["proof"], rcp), hgt(o["ph"]), app_ver(o))
    if k == "chan_ack":
        return D + "(MChanAck %s %s %s %s %s %s %s)" % (bs(o["port"]), bs(o["chan"]), bs(o["cp_chan"]), bs(o["cp_version"]), proof_term(o["proof"], rcp), hgt(o["ph"]), app_ok(o))
    if k == "chan_confirm":
        return D + "(MChanConfirm %s %s %s %s %s)" % (bs(o["port"]), bs(o["chan"]), proof_term(o["proof"], rcp), hgt(o["ph"]), app_ok(o))
    if k == "chan_close_init":
        return D + "(MChanCloseInit %s %s %s)" % (bs(o["port"]), bs(o["chan"]), app_ok(o))
    if k == "chan_close_confirm":
        return D + "(MChanCloseConfirm %s %s %s %s %s)" % (bs(o["port"]), bs(o["chan"]), proof_term(o["proof"], rcp), hgt(o["ph"]), app_ok(o))
    if k == "update":
        return "WUpdate %s %s" % (side(c), bs(o["client"]))
    if k == "commit":
        return "WCommit %s" % side(c)
    if k == "expire":
        return "WExpire"
    if k == "send":
        return "WSend %s %s %s" % (side(c), bs(o["port"]), bs(o["chan"]))
    if k == "timeout":
        return "WTimeout %s %s %s" % (side(c), bs(o["port"]), bs(o["chan"]))
    raise ValueError("unknown op " + k)

class _Tbl:
    def __init__(self, f):
        self.ix = {}; self.terms = []; self.f = f
    def get(self, x):
        key = json.dumps(x, sort_keys=True)
        if key not in self.ix:
            self.ix[key] = len(self.terms); self.terms.append(self.f(x))
        return self.ix[key]

def enc_history(r):
    init = r["in"]["init"]["chains"]
    revs = [int(init[0]["rev"]), int(init[1]["rev"])]
    tc = _Tbl(conn_entry); th = _Tbl(chan_entry)
    def idxs(p):
        return "%s %s" % (lst([tc.get(x) for x in p["conns"]], N), lst([th.get(x) for x in p["chans"]], N))
    def init_term(ch):
        return "(mkInit %s %s %s %s %s)" % (lst(ch["state"]["conns"], conn_entry), lst(ch["state"]["chans"], chan_entry), N(ch["h"]), N(ch["rev"]),
                                            lst(ch["clients"], lambda c: "(%s, %s)" % (bs(c[0]), lst(c[1], N))))
    ops = r["in"]["ops"]; steps = r["out"]["steps"]
    if len(ops) != len(steps):
        raise ValueError("ops/steps length")
    obs = []
    for o, p in zip(ops, steps):
        ci = lst([tc.get(x) for x in p["conns"]], N); hi = lst([th.get(x) for x in p["chans"]], N)
        obs.append("(%s, %s, %s, %s)" % (side(o["c"]), b(p["ok"]), ci, hi))
    fin = r["out"]["final"]
    fin_t = "((%s, %s), (%s, %s))" % (lst([tc.get(x) for x in fin[0]["conns"]], N), lst([th.get(x) for x in fin[0]["chans"]], N),
                                      lst([tc.get(x) for x in fin[1]["conns"]], N), lst([th.get(x) for x in fin[1]["chans"]], N))
    ops_t = "[" + ";\n    ".join(op_term(o, revs) for o in ops) + "]"
    return "History %s %s\n   %s\n   %s\n   %s\n   %s %s" % (init_term(init[0]), init_term(init[1]), ops_t,
            "[" + "; ".join(tc.terms) + "]", "[" + "; ".join(th.terms) + "]", "[" + "; ".join(obs) + "]", fin_t)

# ---- version functions: monitors (direct re-statement of the property text / Go doc comments) ---

ALLOW_NIL = {"1": False}

def _first(ident, vs):
    for v in vs:
        if v[0] == ident:
            return v
    return None

def spec_pick(r):
    """negotiated version: identifier supported by both sides, features = intersection of both
    feature sets (order of the local entry), non-empty; first local entry for which that works"""
    sup, cp = r["in"]
    want = None
    for s in sup:
        c = _first(s[0], cp)
        if c is None:
            continue
        inter = [f for f in s[1] if f in c[1]]
        if not inter and not ALLOW_NIL.get(bytes.fromhex(s[0]).decode("latin1"), False):
            continue
        want = [s[0], inter]
        break
    got = r["out"]
    if got is not None:
        ids_sup = [v[0] for v in sup]; ids_cp = [v[0] for v in cp]
        if got[0] not in ids_sup or got[0] not in ids_cp:
            return "PickVersion returned identifier %s that is not supported by both sides" % got[0]
        if not got[1]:
            return "PickVersion returned an empty feature set"
        # features must be common to some local entry and some counterparty entry with this identifier
        if not any(set(got[1]) <= set(s[1]) for s in sup if s[0] == got[0]) or \
           not any(set(got[1]) <= set(c[1]) for c in cp if c[0] == got[0]):
            return "PickVersion returned features %s outside the intersection of both feature sets" % got[1]
    if got != want:
        return "PickVersion(%s, %s) = %s, the first-match intersection contract gives %s" % (sup, cp, got, want)

def spec_is_supported(r):
    sup, p = r["in"]
    ok, found = r["out"]
    s = _first(p[0], sup)
    want_ok = s is not None and (len(p[1]) > 0 or ALLOW_NIL.get(bytes.fromhex(p[0]).decode("latin1"), False)) and all(f in s[1] for f in p[1])
    if found != s:
        return "FindSupportedVersion(%s in %s) = %s, first entry with that identifier is %s" % (p, sup, found, s)
    if ok != want_ok:
        return "IsSupportedVersion(%s, %s) = %s, required %s" % (sup, p, ok, want_ok)

def spec_verify_proposed(r):
    v, p, f = r["in"]
    ok, feat, inter = r["out"]
    want_ok = p[0] == v[0] and (len(p[1]) > 0 or ALLOW_NIL.get(bytes.fromhex(p[0]).decode("latin1"), False)) and all(x in v[1] for x in p[1])
    if ok != want_ok:
        return "VerifyProposedVersion(%s proposes %s) = %s, required %s" % (v, p, ok, want_ok)
    if feat != (f in v[1]):
        return "VerifySupportedFeature(%s, %s) = %s" % (v, f, feat)
    if inter != [x for x in v[1] if x in p[1]]:
        return "GetFeatureSetIntersection(%s, %s) = %s" % (v[1], p[1], inter)

def _blank(h):
    try:
        s = bytes.fromhex(h).decode("utf-8")
    except UnicodeDecodeError:
        # Go decodes invalid bytes to U+FFFD one byte at a time; the rest may still be spaces
        s = bytes.fromhex(h).decode("utf-8", errors="replace")
    go_space = set("\t\n\v\f\r \u0085\u00a0\u1680\u2028\u2029\u202f\u205f\u3000") | {chr(c) for c in range(0x2000, 0x200b)}
    return all(c in go_space for c in s)

def spec_validate_version(r):
    v = r["in"]
    want = (not _blank(v[0])) and len(v[1]) <= 100 and all(not _blank(f) for f in v[1])
    if r["out"] != want:
        return "ValidateVersion(%s) accepted=%s, required %s" % (v, r["out"], want)

KINDS = {
    "pick_version": dict(props=["C13"], enc=enc_pick, spec=spec_pick, exact=True),
    "is_supported": dict(props=["C13"], enc=enc_is_supported, spec=spec_is_supported, exact=True),
    "verify_proposed": dict(props=["C13"], enc=enc_verify_proposed, spec=spec_verify_proposed, exact=True),
    "validate_version": dict(props=["C13"], enc=enc_validate_version, spec=spec_validate_version, exact=True),
}

KINDS["history"] = dict(props=["C12", "C13"], enc=enc_history, spec=None, exact=False)

MONITORS = {}
KNOWN = {}
