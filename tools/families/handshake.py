"""`handshake` family: connection/channel handshakes between two chains + version negotiation functions."""
import re, json
from lib.coqgen import N, Z, b, hx, opt, lst

NAME = "handshake"
GO_PKG = "./handshake"
COQ_IMPORTS = "From IBC Require Import Lib.Bytes Lib.Dec Lib.CorrLib Core.Height Handshake.Version Handshake.Types Handshake.Model Handshake.World Corr.Handshake."
CASE_TYPE = "Case"
CHECK = "check"

_SAFE = re.compile(rb"^[A-Za-z0-9_\-\.]*$")

def bs(h):
    """hex -> bytes term; printable identifier-like strings as B "..." (shorter to parse)"""
    raw = bytes.fromhex(h)
    if _SAFE.match(raw):
        return '(B "%s")' % raw.decode()
    return hx(h)

def ver(v):
    return "(mkV %s %s)" % (bs(v[0]), lst(v[1], bs))

def vers(vs):
    return lst(vs, ver)

# ---- version functions: encoders ---------------------------------------------------------------

def enc_pick(r):
    sup, cp = r["in"]
    return "PickVersion %s %s %s" % (vers(sup), vers(cp), opt(r["out"], ver))

def enc_is_supported(r):
    sup, p = r["in"]
    ok, found = r["out"]
    return "IsSupported %s %s %s %s" % (vers(sup), ver(p), b(ok), opt(found, ver))

def enc_verify_proposed(r):
    v, p, f = r["in"]
    ok, feat, inter = r["out"]
    return "VerifyProposed %s %s %s %s %s %s" % (ver(v), ver(p), bs(f), b(ok), b(feat), lst(inter, bs))

def enc_validate_version(r):
    return "ValidateVersion %s %s" % (ver(r["in"]), b(r["out"]))


# ---- histories: encoder ---------------------------------------------------------------------------

CONN_STATE = {0: "CUninit", 1: "CInit", 2: "CTryOpen", 3: "COpen"}
CHAN_STATE = {0: "SUninit", 1: "SInit", 2: "STryOpen", 3: "SOpen", 4: "SClosed"}
ORDER = {0: "ONone", 1: "OUnordered", 2: "OOrdered"}

def conn_end(e):
    return "(mkConn %s %s %s %s %s %s %s)" % (CONN_STATE[e[0]], bs(e[1]), bs(e[2]), bs(e[3]), bs(e[4]), vers(e[5]), N(e[6]))

def chan_end(e):
    return "(mkChan %s %s %s %s %s %s)" % (CHAN_STATE[e[0]], ORDER[e[1]], bs(e[2]), bs(e[3]), lst(e[4], bs), bs(e[5]))

def conn_entry(x):
    return "(%s, %s)" % (bs(x[0]), conn_end(x[1]))

def chan_entry(x):
    return "((%s, %s), %s, (%s, %s, %s))" % (bs(x[0]), bs(x[1]), chan_end(x[2]), N(x[3][0]), N(x[3][1]), N(x[3][2]))

def side(c):
    return "true" if c else "false"

def proof_term(p, rev_cp):
    if "garbage" in p:
        return "(PGarbage %s)" % hx(p["garbage"])
    k = p["key"]
    key = "(KConn %s)" % bs(k[1]) if k[0] == "conn" else "(KChan %s %s)" % (bs(k[1]), bs(k[2]))
    return "(PHonest (mkH %s %s) %s)" % (N(rev_cp), N(p["h"]), key)

def hgt(h):
    return "(mkH %s %s)" % (N(h[0]), N(h[1]))

def app_ver(o):
    return "None" if o["app_fail"] else "(Some %s)" % bs(o["app_ver"])

def app_ok(o):
    return b(not o["app_fail"])

def op_term(o, revs):
    k = o["op"]; c = o["c"]
    rcp = revs[1 - c]
    D = "WDeliver %s " % side(c)
    if k == "conn_init":
        return D + "(MConnInit %s %s %s %s %s %s)" % (bs(o["client"]), bs(o["cp_client"]), bs(o["cp_conn"]), bs(o["cp_prefix"]), opt(o["version"], ver), N(o["delay"]))
    if k == "conn_try":
        return D + "(MConnTry %s %s %s %s %s %s %s %s)" % (bs(o["client"]), bs(o["cp_client"]), bs(o["cp_conn"]), bs(o["cp_prefix"]), vers(o["cp_versions"]), N(o["delay"]), proof_term(o["proof"], rcp), hgt(o["ph"]))
    if k == "conn_ack":
        return D + "(MConnAck %s %s %s %s %s)" % (bs(o["conn"]), bs(o["cp_conn"]), ver(o["version"]), proof_term(o["proof"], rcp), hgt(o["ph"]))
    if k == "conn_confirm":
        return D + "(MConnConfirm %s %s %s)" % (bs(o["conn"]), proof_term(o["proof"], rcp), hgt(o["ph"]))
    if k == "chan_init":
        return D + "(MChanInit %s %s %s %s %s %s %s %s)" % (bs(o["port"]), CHAN_STATE[o["state"]], ORDER[o["order"]], bs(o["cp_port"]), bs(o["cp_chan"]), lst(o["hops"], bs), bs(o["version"]), app_ver(o))
    if k == "chan_try":
        return D + "(MChanTry %s %s %s %s %s %s %s %s %s %s %s)" % (bs(o["port"]), CHAN_STATE[o["state"]], ORDER[o["order"]], bs(o["cp_port"]), bs(o["cp_chan"]), lst(o["hops"], bs), bs(o["version"]), bs(o["cp_version"]), proof_term(o["proof"], rcp), hgt(o["ph"]), app_ver(o))
    if k == "chan_ack":
        return D + "(MChanAck %s %s %s %s %s %s %s)" % (bs(o["port"]), bs(o["chan"]), bs(o["cp_chan"]), bs(o["cp_version"]), proof_term(o["proof"], rcp), hgt(o["ph"]), app_ok(o))
    if k == "chan_confirm":
        return D + "(MChanConfirm %s %s %s %s %s)" % (bs(o["port"]), bs(o["chan"]), proof_term(o["proof"], rcp), hgt(o["ph"]), app_ok(o))
    if k == "chan_close_init":
        return D + "(MChanCloseInit %s %s %s)" % (bs(o["port"]), bs(o["chan"]), app_ok(o))
    if k == "chan_close_confirm":
        return D + "(MChanCloseConfirm %s %s %s %s %s)" % (bs(o["port"]), bs(o["chan"]), proof_term(o["proof"], rcp), hgt(o["ph"]), app_ok(o))
    if k == "update":
        return "WUpdate %s %s" % (side(c), bs(o["client"]))
    if k == "commit":
        return "WCommit %s" % side(c)
    if k == "expire":
        return "WExpire"
    if k == "send":
        return "WSend %s %s %s" % (side(c), bs(o["port"]), bs(o["chan"]))
    if k == "timeout":
        return "WTimeout %s %s %s" % (side(c), bs(o["port"]), bs(o["chan"]))
    raise ValueError("unknown op " + k)

class _Tbl:
    def __init__(self, f):
        self.ix = {}; self.terms = []; self.f = f
    def get(self, x):
        key = json.dumps(x, sort_keys=True)
        if key not in self.ix:
            self.ix[key] = len(self.terms); self.terms.append(self.f(x))
        return self.ix[key]

def enc_history(r):
    init = r["in"]["init"]["chains"]
    revs = [int(init[0]["rev"]), int(init[1]["rev"])]
    tc = _Tbl(conn_entry); th = _Tbl(chan_entry)
    def idxs(p):
        return "%s %s" % (lst([tc.get(x) for x in p["conns"]], N), lst([th.get(x) for x in p["chans"]], N))
    def init_term(ch):
        return "(mkInit %s %s %s %s %s)" % (lst(ch["state"]["conns"], conn_entry), lst(ch["state"]["chans"], chan_entry), N(ch["h"]), N(ch["rev"]),
                                            lst(ch["clients"], lambda c: "(%s, %s)" % (bs(c[0]), lst(c[1], N))))
    ops = r["in"]["ops"]; steps = r["out"]["steps"]
    if len(ops) != len(steps):
        raise ValueError("ops/steps length")
    obs = []
    for o, p in zip(ops, steps):
        ci = lst([tc.get(x) for x in p["conns"]], N); hi = lst([th.get(x) for x in p["chans"]], N)
        obs.append("(%s, %s, %s, %s)" % (side(o["c"]), b(p["ok"]), ci, hi))
    fin = r["out"]["final"]
    fin_t = "((%s, %s), (%s, %s))" % (lst([tc.get(x) for x in fin[0]["conns"]], N), lst([th.get(x) for x in fin[0]["chans"]], N),
                                      lst([tc.get(x) for x in fin[1]["conns"]], N), lst([th.get(x) for x in fin[1]["chans"]], N))
    ops_t = "[" + ";\n    ".join(op_term(o, revs) for o in ops) + "]"
    return "History %s %s\n   %s\n   %s\n   %s\n   %s %s" % (init_term(init[0]), init_term(init[1]), ops_t,
            "[" + "; ".join(tc.terms) + "]", "[" + "; ".join(th.terms) + "]", "[" + "; ".join(obs) + "]", fin_t)


# ---- histories: monitors (evaluate the property text on what the implementation did) --------------
# Independent of the Coq model: only the recorded projections of both chains are read.

ORD_NAME = {1: "ORDER_UNORDERED", 2: "ORDER_ORDERED"}
DEFAULT_FEATURES = [b"ORDER_ORDERED".hex(), b"ORDER_UNORDERED".hex()]
LOCALHOST = b"09-localhost".hex()
LOCALHOST_CONN = b"connection-localhost".hex()
IBC = b"ibc".hex()

def _st_legal(a, b_):
    """channel state transition allowed by the property (1 INIT, 2 TRYOPEN, 3 OPEN, 4 CLOSED)"""
    return a == b_ or (a, b_) in ((1, 3), (2, 3)) or (a != 4 and b_ == 4)

def _maps(p):
    conns = {c[0]: c[1] for c in p["conns"]}
    chans = {(c[0], c[1]): c[2] for c in p["chans"]}
    return conns, chans

def spec_history(r, pid):
    init = r["in"]["init"]["chains"]
    cur = [_maps(init[0]["state"]), _maps(init[1]["state"])]
    # everything each chain ever stored under a key (what some committed state of it could prove)
    past_conns = [dict(), dict()]
    past_chans = [dict(), dict()]
    def remember(c):
        for k, v in cur[c][0].items():
            past_conns[c].setdefault(k, []).append(v)
        for k, v in cur[c][1].items():
            past_chans[c].setdefault(k, []).append(v)
    remember(0); remember(1)
    ops = r["in"]["ops"]; steps = r["out"]["steps"]
    for i, (o, p) in enumerate(zip(ops, steps)):
        c = o["c"]; other = 1 - c
        old_conns, old_chans = cur[c]
        new_conns, new_chans = _maps(p)
        where = "step %d (%s on chain %d, tag %s)" % (i, o["op"], c, o.get("tag"))
        if not p["ok"] and o["op"] not in ("update",):
            if new_conns != old_conns or new_chans != old_chans:
                return "%s failed but changed connection/channel ends" % where
        if pid == "C12":
            for k, a in old_chans.items():
                if k not in new_chans:
                    return "%s: channel end %s disappeared" % (where, k)
            for k, e in new_chans.items():
                a = old_chans.get(k)
                if a is None:
                    if not ((e[0] == 1 and o["op"] == "chan_init") or (e[0] == 2 and o["op"] == "chan_try")):
                        return "%s: channel end %s created in state %d" % (where, k, e[0])
                else:
                    if not _st_legal(a[0], e[0]):
                        return "%s: channel end %s moved %d -> %d" % (where, k, a[0], e[0])
                    if a[1] != e[1] or a[2] != e[2] or a[4] != e[4]:
                        return "%s: channel end %s changed ordering/counterparty port/hops" % (where, k)
                    if a[0] in (2, 3, 4) and (a[3] != e[3] or a[5] != e[5]):
                        return "%s: channel end %s changed counterparty channel/version after TRYOPEN" % (where, k)
                    if a[0] == e[0] and a != e:
                        return "%s: channel end %s changed without a state transition" % (where, k)
                prev = a[0] if a is not None else 0
                if e[0] in (2, 3, 4) and prev != e[0] and not (e[0] == 4 and o["op"] in ("chan_close_init", "timeout")):
                    # needs evidence on the counterparty chain: TRYOPEN<-INIT, OPEN<-TRYOPEN (ack) / OPEN (confirm), CLOSED<-CLOSED
                    conn = old_conns.get(e[4][0]) if e[4] else None
                    if conn is None:
                        return "%s: channel end %s moved to %d without a connection" % (where, k, e[0])
                    if e[0] == 2:
                        want = [1, e[1], k[0], "", [conn[3]], o.get("cp_version")]
                    elif e[0] == 3:
                        want = [2 if prev == 1 else 3, e[1], k[0], k[1], [conn[3]], e[5]]
                    else:
                        want = [4, e[1], k[0], k[1], [conn[3]], e[5]]
                    if want not in past_chans[other].get((e[2], e[3]), []):
                        return "%s: channel end %s became %d but chain %d never held the matching end %s under %s" % (
                            where, k, e[0], other, want, (e[2], e[3]))
                if e[0] == 4 and prev != 4 and o["op"] == "timeout" and e[1] != 2:
                    return "%s: timeout closed an UNORDERED channel" % where
        if pid == "C13":
            if o["op"] in ("conn_init", "conn_try") and o["client"] == LOCALHOST and p["ok"]:
                return "%s: a connection handshake over the localhost client was accepted" % where
            for k, a in old_conns.items():
                if k not in new_conns:
                    return "%s: connection end %s disappeared" % (where, k)
                if a[0] == 3 and new_conns[k] != a:
                    return "%s: OPEN connection end %s changed" % (where, k)
            for k, e in new_conns.items():
                a = old_conns.get(k)
                if e[1] == LOCALHOST and k != LOCALHOST_CONN:
                    return "%s: connection %s over the localhost client exists" % (where, k)
                if a is None and not ((e[0] == 1 and o["op"] == "conn_init") or (e[0] == 2 and o["op"] == "conn_try")):
                    return "%s: connection end %s created in state %d" % (where, k, e[0])
                if a is not None and a != e:
                    if not ((a[0], e[0]) in ((1, 3), (2, 3))):
                        return "%s: connection end %s moved %d -> %d" % (where, k, a[0], e[0])
                    if a[1] != e[1] or a[2] != e[2] or a[4] != e[4] or a[6] != e[6]:
                        return "%s: connection end %s changed client pair/prefix/delay" % (where, k)
                if e[0] in (2, 3) and (a is None or a[0] != e[0]):
                    if len(e[5]) != 1:
                        return "%s: connection end %s is %d with %d versions" % (where, k, e[0], len(e[5]))
                    v = e[5][0]
                    if e[0] == 2:
                        # negotiated = intersection of our features with the proven INIT end's entry for that identifier
                        okv = False
                        for cand in past_conns[other].get(e[3], []):
                            if cand[0] == 1 and cand[1] == e[2] and cand[2] == e[1] and cand[3] == "" and cand[4] == IBC and cand[6] == e[6]:
                                first = _first(v[0], cand[5])
                                if first is not None and v[0] == b"1".hex() and v[1] and v[1] == [f for f in DEFAULT_FEATURES if f in first[1]]:
                                    okv = True
                        if not okv:
                            return "%s: TRYOPEN connection end %s (version %s) without a matching INIT end on chain %d" % (where, k, v, other)
                    else:
                        want = [2 if a[0] == 1 else 3, e[2], e[1], k, IBC, e[5], e[6]]
                        if want not in past_conns[other].get(e[3], []):
                            return "%s: connection end %s became OPEN but chain %d never held the matching end %s under %s" % (where, k, other, want, e[3])
            if o["op"] in ("chan_init", "chan_try") and p["ok"]:
                conn = old_conns.get(o["hops"][0]) if len(o["hops"]) == 1 else None
                if conn is None or len(conn[5]) != 1 or ORD_NAME.get(o["order"], "?").encode().hex() not in conn[5][0][1]:
                    return "%s: channel opened on a connection without exactly one version supporting the ordering" % where
        cur[c] = (new_conns, new_chans)
        remember(c)
        # agreement, evaluated after every step on the current states of both chains
        for a_side in (0, 1):
            b_side = 1 - a_side
            if pid == "C12":
                for k, e in cur[a_side][1].items():
                    if e[0] != 3:
                        continue
                    if e[4] and e[4][0] == LOCALHOST_CONN:
                        continue
                    cp = cur[b_side][1].get((e[2], e[3]))
                    if cp is None:
                        return "%s: OPEN channel end %s on chain %d names a counterparty end that does not exist" % (where, k, a_side)
                    if cp[0] == 3 and (cp[1] != e[1] or cp[5] != e[5] or (cp[2], cp[3]) != k):
                        return "%s: both ends OPEN but they disagree: %s=%s vs %s" % (where, k, e, cp)
                    if cp[0] not in (2, 3, 4) or cp[1] != e[1] or (cp[2], cp[3]) != k:
                        return "%s: OPEN channel end %s has counterparty end %s" % (where, k, cp)
                    conn = cur[a_side][0].get(e[4][0]) if e[4] else None
                    if conn is None or conn[0] != 3 or len(conn[5]) != 1 or ORD_NAME.get(e[1], "?").encode().hex() not in conn[5][0][1]:
                        return "%s: OPEN channel end %s on a connection that is not OPEN with one version supporting its ordering" % (where, k)
            if pid == "C13":
                for k, e in cur[a_side][0].items():
                    if e[0] != 3 or e[1] == LOCALHOST:
                        continue
                    cp = cur[b_side][0].get(e[3])
                    if cp is None:
                        return "%s: OPEN connection end %s on chain %d names a counterparty end that does not exist" % (where, k, a_side)
                    if cp[0] not in (2, 3) or cp[1] != e[2] or cp[2] != e[1] or cp[3] != k or cp[4] != IBC or cp[5] != e[5] or cp[6] != e[6]:
                        return "%s: OPEN connection end %s=%s has counterparty end %s" % (where, k, e, cp)
    fin = r["out"]["final"]
    for c in (0, 1):
        if _maps(fin[c]) != cur[c]:
            return "final projection of chain %d differs from the last per-step projection (an operation changed the other chain)" % c
    return None

# ---- version functions: monitors (direct re-statement of the property text / Go doc comments) ---

ALLOW_NIL = {"1": False}

def _first(ident, vs):
    for v in vs:
        if v[0] == ident:
            return v
    return None

def spec_pick(r):
    """negotiated version: identifier supported by both sides, features = intersection of both
    feature sets (order of the local entry), non-empty; first local entry for which that works"""
    sup, cp = r["in"]
    want = None
    for s in sup:
        c = _first(s[0], cp)
        if c is None:
            continue
        inter = [f for f in s[1] if f in c[1]]
        if not inter and not ALLOW_NIL.get(bytes.fromhex(s[0]).decode("latin1"), False):
            continue
        want = [s[0], inter]
        break
    got = r["out"]
    if got is not None:
        ids_sup = [v[0] for v in sup]; ids_cp = [v[0] for v in cp]
        if got[0] not in ids_sup or got[0] not in ids_cp:
            return "PickVersion returned identifier %s that is not supported by both sides" % got[0]
        if not got[1]:
            return "PickVersion returned an empty feature set"
        # features must be common to some local entry and some counterparty entry with this identifier
        if not any(set(got[1]) <= set(s[1]) for s in sup if s[0] == got[0]) or \
           not any(set(got[1]) <= set(c[1]) for c in cp if c[0] == got[0]):
            return "PickVersion returned features %s outside the intersection of both feature sets" % got[1]
    if got != want:
        return "PickVersion(%s, %s) = %s, the first-match intersection contract gives %s" % (sup, cp, got, want)

def spec_is_supported(r):
    sup, p = r["in"]
    ok, found = r["out"]
    s = _first(p[0], sup)
    want_ok = s is not None and (len(p[1]) > 0 or ALLOW_NIL.get(bytes.fromhex(p[0]).decode("latin1"), False)) and all(f in s[1] for f in p[1])
    if found != s:
        return "FindSupportedVersion(%s in %s) = %s, first entry with that identifier is %s" % (p, sup, found, s)
    if ok != want_ok:
        return "IsSupportedVersion(%s, %s) = %s, required %s" % (sup, p, ok, want_ok)

def spec_verify_proposed(r):
    v, p, f = r["in"]
    ok, feat, inter = r["out"]
    want_ok = p[0] == v[0] and (len(p[1]) > 0 or ALLOW_NIL.get(bytes.fromhex(p[0]).decode("latin1"), False)) and all(x in v[1] for x in p[1])
    if ok != want_ok:
        return "VerifyProposedVersion(%s proposes %s) = %s, required %s" % (v, p, ok, want_ok)
    if feat != (f in v[1]):
        return "VerifySupportedFeature(%s, %s) = %s" % (v, f, feat)
    if inter != [x for x in v[1] if x in p[1]]:
        return "GetFeatureSetIntersection(%s, %s) = %s" % (v[1], p[1], inter)

def _blank(h):
    try:
        s = bytes.fromhex(h).decode("utf-8")
    except UnicodeDecodeError:
        # Go decodes invalid bytes to U+FFFD one byte at a time; the rest may still be spaces
        s = bytes.fromhex(h).decode("utf-8", errors="replace")
    go_space = set("\t\n\v\f\r \u0085\u00a0\u1680\u2028\u2029\u202f\u205f\u3000") | {chr(c) for c in range(0x2000, 0x200b)}
    return all(c in go_space for c in s)

def spec_validate_version(r):
    v = r["in"]
    want = (not _blank(v[0])) and len(v[1]) <= 100 and all(not _blank(f) for f in v[1])
    if r["out"] != want:
        return "ValidateVersion(%s) accepted=%s, required %s" % (v, r["out"], want)

KINDS = {
    "pick_version": dict(props=["C13"], enc=enc_pick, spec=spec_pick, exact=True),
    "is_supported": dict(props=["C13"], enc=enc_is_supported, spec=spec_is_supported, exact=True),
    "verify_proposed": dict(props=["C13"], enc=enc_verify_proposed, spec=spec_verify_proposed, exact=True),
    "validate_version": dict(props=["C13"], enc=enc_validate_version, spec=spec_validate_version, exact=True),
}

KINDS["history"] = dict(props=["C12", "C13"], enc=enc_history, spec=spec_history, spec_takes_pid=True, exact=False)

MONITORS = {}
KNOWN = {}
