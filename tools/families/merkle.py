"""`merkle` family (C18): MerkleProof.VerifyMembership / VerifyNonMembership on real rootmulti/IAVL proofs with
every single mutation, GetKey, ApplyPrefix, and BuildMerklePath on explicit Go-slice heap layouts."""
from lib.coqgen import N, Z, nat, b, hx, opt, lst

NAME = "merkle"
GO_PKG = "./merkle"
COQ_IMPORTS = "From IBC Require Import Lib.Bytes Lib.CorrLib Merkle.Merkle Merkle.GoSlice Corr.Merkle."
CASE_TYPE = "Case"
CHECK = "check"

OUT = {"ok": "Ok", "err": "Err", "panic": "Panic"}

# ---- encoders --------------------------------------------------------------------------------

def enc_root(r):
    if r["t"] == "nil":
        return "RNil"
    if r["t"] == "nilptr":
        return "RNilPtr"
    return "(RHash %s)" % hx(r["h"])

def enc_ep(e):
    return "(%s, %s, %s, %s, %s)" % (nat(e[0]), hx(e[1]), hx(e[2]), hx(e[3]), b(e[4]))

def enc_np(e):
    return "(%s, %s, %s, %s)" % (nat(e[0]), hx(e[1]), hx(e[2]), b(e[3]))

def enc_level(l):
    return "(mkTP %s %s %s %s %s)" % (opt(l["calc"], hx), b(l["ex"]), b(l["nonex"]), opt(l["ep"], enc_ep), opt(l["np"], enc_np))

def enc_verify(r):
    i = r["in"]
    proofs = opt(i["proofs"], lambda ps: lst(ps, lambda l: opt(l, enc_level)))
    return "Verify %s %s %s %s %s %s %s" % (
        b(i["nm"]), lst(i["specs"], lambda s: opt(s, nat)), enc_root(i["root"]),
        opt(i["path"], lambda p: lst(p, hx)), hx(i["value"]), proofs, OUT[r["out"]])

def enc_apply(r):
    i = r["in"]
    pre = {"nil": "PNil", "nilptr": "PNilPtr"}.get(i["t"]) or "(PBytes %s)" % hx(i["b"])
    o = r["out"]
    out = "AErr" if o == "err" else "APanic" if o == "panic" else "(AOk %s)" % lst(o, hx)
    return "Apply %s %s %s" % (pre, lst(i["path"], hx), out)

def enc_getkey(r):
    return "GetKey %s %s %s" % (lst(r["in"]["path"], hx), Z(r["in"]["idx"]), opt(r["out"], hx))

def enc_slice(h):
    return "(mkS %s %s %s %s)" % tuple(nat(x) for x in h)

def enc_layout(i):
    p = i["prefix"]
    return "%s %s %s" % (lst(i["arrs"], hx), lst(i["outer"], enc_slice), enc_slice([0, p[0], p[1], p[2]]))

def enc_bmp(r):
    i, o = r["in"], r["out"]
    obs = "(mkBO %s %s %s %s %s %s %s)" % (b(o["panic"]), lst(o["arrs"], hx), lst(o["outer"], enc_slice), nat(o["res_arr"]),
                                           lst(o["res"], enc_slice), lst(o["res_view"], hx), lst(o["view"], hx))
    return "Bmp %s %s %s %s %s" % (enc_layout(i), hx(i["path"]), nat(i["eo"]), nat(i["ei"]), obs)

def enc_bmp2(r):
    i, o = r["in"], r["out"]
    return "Bmp2 %s %s %s %s %s %s %s %s %s %s %s" % (
        enc_layout(i), hx(i["path"]), hx(i["path2"]), nat(i["eo"]), nat(i["ei"]), nat(i["eo2"]), nat(i["ei2"]),
        lst(o["view1"], hx), lst(o["view1_after2"], hx), lst(o["view2"], hx), lst(o["view"], hx))

# ---- monitors: the property evaluated on what the implementation did ----------------------------

# Panics proved in the model (Props/C18.v: C18_membership_panic_only_if, C18_nonmembership_panic_iff) on Go
# shapes no handler can produce (protobuf decoding never yields a nil entry, an empty non-nil slice or a
# nil *MerkleRoot; see docs/merkle.md). The property text does not speak about panics; they are reported,
# not counted.
def documented_panic(i, tag):
    if tag.startswith("shape:"):
        return True
    if tag.startswith("degenerate") and i["nm"] and i["proofs"] == [] and i["specs"] == [] and i["path"] == []:
        return True
    return False

def spec_verify(r):
    i, out, tag = r["in"], r["out"], r.get("tag", "")
    gt = i["gt"]
    what = "VerifyNonMembership" if i["nm"] else "VerifyMembership"
    desc = "%s(specs=%s, root=%s, path=%s, value=%s) [%s]" % (what, i["specs"], i["root"], i["path"], i["value"], tag)
    if out == "panic":
        if documented_panic(i, tag):
            return None
        return "panic in " + desc
    if tag.startswith("degenerate"):
        want = (not i["nm"]) and i["value"] != "" and i["root"]["t"] == "hash" and i["value"] == i["root"]["h"] \
            and i["proofs"] == [] and i["specs"] == [] and i["path"] == []
        if (out == "ok") != want:
            return "no proof levels at all: outcome %s, but acceptance is only justified when value = root; %s" % (out, desc)
        return None
    if out == "ok":
        if not gt["root_honest"]:
            return "accepted under a root that is not the committed app hash: " + desc
        if i["path"] is None or len(i["path"]) != 2 or not gt["store_exists"]:
            return "accepted for a path that does not address (store, key): " + desc
        if i["nm"]:
            if gt["store_val"] is not None:
                return "non-membership accepted but the store holds %s at that key: %s" % (gt["store_val"], desc)
        else:
            if i["value"] == "":
                return "membership of an empty value accepted: " + desc
            if gt["store_val"] != i["value"]:
                return "membership accepted but the store holds %s at that key: %s" % (gt["store_val"], desc)
        if tag.startswith("mut:") or tag.startswith("guard:"):
            # an ICS-23 range proof legitimately covers every absent key between the same two neighbours
            if i["nm"] and tag.startswith("mut:path/key-"):
                return None
            return "a mutated input was accepted: " + desc
        return None
    if tag.startswith("honest:"):
        return "an honest proof was rejected: " + desc
    return None

def nontrivial_verify(r):
    return True

def spec_apply(r):
    i, o = r["in"], r["out"]
    if i["t"] == "bytes" and i["b"] != "":
        if o != [i["b"]] + i["path"]:
            return "ApplyPrefix(%s, %s) = %s, expected the prefix prepended" % (i["b"], i["path"], o)
    elif i["t"] == "nilptr":
        return None     # documented: typed nil pointer panics in the value-receiver method Empty()
    elif o != "err":
        return "ApplyPrefix with an empty/nil prefix returned %s" % (o,)

def spec_getkey(r):
    p, idx = r["in"]["path"], int(r["in"]["idx"])
    u = idx % (1 << 64)
    want = p[u] if u < len(p) else None
    if r["out"] != want:
        return "GetKey(uint64(%d)) on %s = %s, expected %s" % (idx, p, r["out"], want)

def _view(arrs, outer, prefix):
    out = []
    for (a, o, l, c) in outer[prefix[0]:prefix[0] + prefix[1]]:
        out.append(arrs[a][2 * o:2 * (o + l)] if c > 0 else "")
    return out

def spec_bmp(r):
    i, o = r["in"], r["out"]
    before = _view(i["arrs"], i["outer"], i["prefix"])
    if before != o["view_before"]:
        return "harness layout inconsistent: %s vs %s" % (before, o["view_before"])
    if o["panic"]:
        if i["prefix"][1] != 0:
            return "BuildMerklePath panicked on a non-empty prefix %s" % (before,)
        return None
    if i["prefix"][1] == 0:
        return "BuildMerklePath accepted an empty prefix"
    if o["view"] != before:
        return "BuildMerklePath changed the caller's prefix: before %s after %s (path %s, layout %s)" % (before, o["view"], i["path"], i["outer"])
    if o["res_view"] != before[:-1] + [before[-1] + i["path"]]:
        return "BuildMerklePath result %s is not the prefix %s with %s appended to its last element" % (o["res_view"], before, i["path"])

def spec_bmp2(r):
    i, o = r["in"], r["out"]
    before = _view(i["arrs"], i["outer"], i["prefix"])
    if o["view"] != before:
        return "two BuildMerklePath calls changed the caller's prefix: before %s after %s" % (before, o["view"])
    # o["view1"] != o["view1_after2"] (the results alias each other) is recorded by the tag, not a violation

KINDS = {
    "verify": dict(props=["C18"], enc=enc_verify, spec=spec_verify, exact=True, nontrivial=nontrivial_verify),
    "apply": dict(props=["C18"], enc=enc_apply, spec=spec_apply, exact=True),
    "getkey": dict(props=["C18"], enc=enc_getkey, spec=spec_getkey, exact=True),
    "bmp": dict(props=["C18"], enc=enc_bmp, spec=spec_bmp, exact=True),
    # an earlier prefix element lies inside the spare capacity of the last one: the model predicts the change
    # (Props/C18.v C18_bmp_overlap_refuted); recorded and compared with the model, not counted by the monitor
    "bmp_overlap": dict(props=["C18"], enc=enc_bmp, spec=None, exact=True),
    "bmp_alias2": dict(props=["C18"], enc=enc_bmp2, spec=spec_bmp2, exact=True),
}

KNOWN = {}
