"""`denom` family: ICS-20 denomination handling (C34, C33, C42) and transfer authorizations (C36)."""
import hashlib, re
from lib.coqgen import N, Z, b, hx, opt, lst, pair

NAME = "denom"
GO_PKG = "./denom"
COQ_IMPORTS = "From IBC Require Import Lib.Bytes Lib.Dec Lib.CorrLib Denom.Ident Denom.Denom Denom.Transfer Denom.Authz Corr.Denom."
CASE_TYPE = "Case"
CHECK = "check"


def H(x):
    return bytes.fromhex(x)


def S(x):
    """hex -> printable text for messages"""
    return repr(bytes.fromhex(x).decode("latin1"))


def sha(bz):
    return hashlib.sha256(bz).digest()


def trace_term(tr):
    return lst(tr, lambda pc: pair(hx(pc[0]), hx(pc[1])))


def obs_term(o):
    return "(mkObs %s %s %s %s %s %s)" % (hx(o["base"]), trace_term(o["trace"]), b(o["valid"]), hx(o["path"]), hx(o["hash"]), hx(o["ibc"]))


# ---- independent re-statements of the Go regexps / validators (Python `re`, ASCII classes spelled out) --------

RE_ID = re.compile(rb"[a-zA-Z0-9._+\-#\[\]<>]+")
RE_CHAN = re.compile(rb"channel-[0-9]{1,20}")
RE_CLIENT = re.compile(rb"[0-9A-Za-z_]+([0-9A-Za-z_\-]+[0-9A-Za-z_])?-[0-9]{1,20}")
RE_SDK = re.compile(rb"[a-zA-Z][a-zA-Z0-9/:._\-]{2,127}")
U64 = 1 << 64
GO_SPACE = set("\t\n\v\f\r \u0085\u00a0\u1680\u2028\u2029\u202f\u205f\u3000") | {chr(c) for c in range(0x2000, 0x200b)}


def go_blank(bz):
    """strings.TrimSpace(s) == "": every rune (invalid bytes decode to U+FFFD) is unicode.IsSpace"""
    return all(ch in GO_SPACE for ch in bz.decode("utf-8", errors="replace"))


def id_validator(bz, lo, hi):
    return (not go_blank(bz)) and b"/" not in bz and lo <= len(bz) <= hi and RE_ID.fullmatch(bz) is not None


def valid_channel_id(bz):
    return RE_CHAN.fullmatch(bz) is not None and int(bz[len(b"channel-"):]) < U64


def valid_client_id(bz):
    if bz == b"09-localhost":
        return True
    return RE_CLIENT.fullmatch(bz) is not None and int(bz.rsplit(b"-", 1)[1]) < U64


def hop_id(bz):
    return valid_channel_id(bz) or valid_client_id(bz)


def enc_ident(r):
    return "Ident %s %s" % (hx(r["in"]), " ".join(b(x) for x in r["out"]))


def spec_ident(r):
    s = H(r["in"])
    want = [id_validator(s, 2, 128), id_validator(s, 8, 64), id_validator(s, 4, 64), valid_channel_id(s),
            valid_client_id(s), RE_SDK.fullmatch(s) is not None, go_blank(s)]
    if list(r["out"]) != want:
        return "identifier checks on %s returned %s, the documented formats require %s (port, channel, client validators; IsValidChannelID; IsValidClientID; sdk.ValidateDenom; blank)" % (S(r["in"]), r["out"], want)


# ---- C34 ---------------------------------------------------------------------------------------------------------

def voucher_name(o):
    """'ibc/' + upper-case hex SHA-256 of the path, or the base itself when there is no trace"""
    if not o["trace"]:
        return H(o["base"])
    return b"ibc/" + sha(H(o["path"])).hex().upper().encode()


def denom_consistency(o, what):
    if H(o["hash"]) != sha(H(o["path"])):
        return "%s: Hash() is not the SHA-256 of Path() %s" % (what, S(o["path"]))
    if H(o["ibc"]) != voucher_name(o):
        return "%s: IBCDenom() %s is not determined by the path %s alone" % (what, S(o["ibc"]), S(o["path"]))
    want_path = b"".join(H(p) + b"/" + H(c) + b"/" for p, c in o["trace"]) + H(o["base"])
    if H(o["path"]) != want_path:
        return "%s: Path() %s is not trace + '/' + base" % (what, S(o["path"]))


def enc_extract(r):
    o = r["out"]
    return "Extract %s %s" % (hx(r["in"]), "None" if o.get("panic") else "(Some %s)" % obs_term(o))


def spec_extract(r):
    o = r["out"]
    if o.get("panic"):
        return "ExtractDenomFromPath(%s) panicked" % S(r["in"])
    if o["valid"] and o["path"] != r["in"]:
        return "accepted denomination path %s serializes back to %s after parsing" % (S(r["in"]), S(o["path"]))
    return denom_consistency(o, "ExtractDenomFromPath(%s)" % S(r["in"]))


def enc_denom(r):
    i, o = r["in"], r["out"]
    return "DenomFns %s %s %s %s %s %s" % (hx(i["base"]), trace_term(i["trace"]), hx(i["port"]), hx(i["chan"]), obs_term(o), b(o["has_prefix"]))


def spec_denom(r):
    i, o = r["in"], r["out"]
    why = denom_consistency(o, "Denom(%s)" % S(i["base"]))
    if why:
        return why
    want = bool(i["trace"]) and i["trace"][0] == [i["port"], i["chan"]]
    if o["has_prefix"] != want:
        return "HasPrefix(%s, %s) = %s on trace %s" % (S(i["port"]), S(i["chan"]), o["has_prefix"], i["trace"])


def enc_escrow(r):
    return "Escrow %s %s %s" % (hx(r["in"][0]), hx(r["in"][1]), hx(r["out"]))


def spec_escrow(r):
    p, c = H(r["in"][0]), H(r["in"][1])
    want = sha(b"ics20-1\x00" + p + b"/" + c)[:20]
    if H(r["out"]) != want:
        return "GetEscrowAddress(%s, %s) = %s is not the ADR-028 hash of version || 0 || port/channel" % (S(r["in"][0]), S(r["in"][1]), r["out"])


def mon_escrow_distinct(recs, idx):
    """distinct (port, channel) pairs get distinct escrow addresses (within the batch)"""
    seen = {}
    out = []
    for i, r in zip(idx, recs):
        if r["k"] != "escrow":
            continue
        key = tuple(r["in"])
        prev = seen.get(r["out"])
        if prev is not None and prev != key:
            out.append((i, "escrow address %s is shared by (%s, %s) and (%s, %s)" % (r["out"], S(prev[0]), S(prev[1]), S(key[0]), S(key[1]))))
        seen.setdefault(r["out"], key)
    return out


def enc_setdenom(r):
    i = r["in"]
    return "SetDenomKeys %s %s %s" % (hx(i["base"]), trace_term(i["trace"]), lst(r["out"]["new_keys"], hx))


def spec_setdenom(r):
    i = r["in"]
    pathb = b"".join(H(p) + b"/" + H(c) + b"/" for p, c in i["trace"]) + H(i["base"])
    want = (b"\x03" + sha(pathb)).hex()
    if r["out"]["new_keys"] != [want]:
        return "SetDenom(%s) wrote keys %s, expected exactly 0x03||sha256(full path) = %s" % (S(pathb.hex()), r["out"]["new_keys"], want)
    if not r["out"]["get_ok"]:
        return "GetDenom(hash of path) did not return the denomination just stored for %s" % S(pathb.hex())


def enc_recv_setdenom(r):
    i = r["in"]
    return "SetDenomKeys %s %s %s" % (hx(i["base"]), trace_term(i["trace"]), lst(r["out"]["new_keys"], hx))


def spec_recv_setdenom(r):
    """a receive that mints a voucher records it under 0x03 || sha256(full path), path = receiving hop + packet denom"""
    i = r["in"]
    pathb = H(i["dp"]) + b"/" + H(i["dc"]) + b"/" + H(i["pd"])
    want = (b"\x03" + sha(pathb)).hex()
    if r["out"]["new_keys"] != [want] and not (r["out"]["new_keys"] == [] and r["out"]["get_ok"]):
        return "a receive minting the voucher of %s (bank metadata pre-set: %s) wrote denom-store keys %s, expected exactly 0x03||sha256(full path) = %s" % (
            S(pathb.hex()), i["preset"], r["out"]["new_keys"], want)
    if not r["out"]["get_ok"]:
        return "after a receive minting the voucher of %s (bank metadata pre-set: %s) GetDenom(hash of its full path) does not return it" % (S(pathb.hex()), i["preset"])


# ---- C42 (pure functions; the comparison with the bank movement is on the ics20_* kinds) ------------------------

def enc_rl_send(r):
    return "RlSend %s %s" % (hx(r["in"]), hx(r["out"]))


def enc_rl_recv(r):
    return "RlRecv %s %s" % (" ".join(hx(x) for x in r["in"]), hx(r["out"]))


def enc_v2reenc(r):
    o = r["out"]
    if isinstance(o, dict):
        raise ValueError("re-encoded packet data is not decodable")
    return "V2Reenc %s %s" % (hx(r["in"]), opt(o, hx))


def spec_v2reenc(r):
    o = r["out"]
    if isinstance(o, dict):
        return "v2ToV1Packet produced packet data that does not decode for denom %s" % S(r["in"])
    if o is not None and o != r["in"]:
        return "the v2 rate-limit middleware re-encodes denomination %s as %s, so it charges a different path than the transfer module parses" % (S(r["in"]), S(o))


# ---- independent parser used by the monitors and the known-finding matchers ---------------------------------------

def py_extract(s):
    """ExtractDenomFromPath as documented: pairs (port, id) are hops while the id is a channel/client identifier"""
    segs = s.split(b"/")
    if segs[0] == s:
        return ([], s)
    trace, i, n, rest = [], 0, len(segs), []
    while i < n:
        if i < n - 1 and n > 2 and hop_id(segs[i + 1]):
            trace.append((segs[i], segs[i + 1]))
            i += 2
        else:
            rest = segs[i:]
            break
    return (trace, b"/".join(rest))


def py_path(trace, base):
    return b"".join(p + b"/" + c + b"/" for p, c in trace) + base


def parses_back(trace, base):
    trace = [(bytes(p), bytes(c)) for p, c in trace]
    return py_extract(py_path(trace, base)) == (trace, base)


def tok(t):
    return ([(H(p), H(c)) for p, c in t["trace"]], H(t["base"]))


def tok_term(t):
    return "%s %s" % (hx(t["base"]), trace_term(t["trace"]))


# ---- C33 ---------------------------------------------------------------------------------------------------------

def enc_roundtrip(r):
    i, o = r["in"], r["out"]
    trip = "(mkTrip %s %s %s %s %s %s %s %s)" % (b(o["send1"]), b(o["recv1"]), hx(o["voucher"]), b(o["send2"]), b(o["recv2"]),
                                                 Z(o["a_user"]), Z(o["a_escrow"]), Z(o["b_user"]))
    return "RoundTrip %s %s %s %s %s %s %s" % (hx(i["ca"]), hx(i["cb"]), hx(i["base"]), Z(i["funds"]), Z(i["amt"]), Z(i["back"]), trip)


def spec_roundtrip(r):
    i, o = r["in"], r["out"]
    if not (o["send1"] and o["recv1"]):
        return None          # no voucher was received: nothing to return (first-leg failures belong to C32)
    left = int(i["amt"]) - int(i["back"])
    what = "base denomination %s: voucher %s received over %s" % (S(i["base"]), S(o["voucher"]), S(i["cb"]))
    if not o["send2"]:
        return what + " cannot be sent back over the same channel (MsgTransfer rejected)"
    if not o["recv2"]:
        return what + " was sent back but the origin chain answered with an error acknowledgement instead of releasing the escrow"
    got = (int(o["a_user"]), int(o["a_escrow"]), int(o["b_user"]))
    if got != (-left, left, left):
        return what + ": after A->B->A balances (origin holder, origin escrow, voucher) relative to the start are %s, expected %s" % (got, (-left, left, left))


def known_f5b(r):
    """base denomination whose path behind the receiving hop parses back to a different (trace, base)"""
    if r["k"] != "roundtrip":
        return False
    i = r["in"]
    return not parses_back([(b"transfer", H(i["cb"]))], H(i["base"]))


# ---- C42 on the real code ------------------------------------------------------------------------------------------

ACT = {"": 0, "mint": 1, "unescrow": 2, "burn": 1, "escrow": 2}


def enc_ics20_recv(r):
    o = r["out"]
    return "Ics20Recv %s %s %s %s %s %s" % (" ".join(hx(x) for x in r["in"]), b(o["err"]), b(o["panic"]), N(ACT[o["action"]]), opt(o["bank"], hx), hx(o["rl"]))


def spec_ics20_recv(r):
    o = r["out"]
    if not o["err"] and o["bank"] is not None and o["bank"] != o["rl"]:
        return "receive of %s over %s<-%s: rate limiting charges %s but ICS-20 %ss %s" % (S(r["in"][4]), S(r["in"][3]), S(r["in"][1]), S(o["rl"]), o["action"], S(o["bank"]))


def enc_ics20_send(r):
    i, o = r["in"], r["out"]
    return "Ics20Send %s %s %s %s %s %s %s %s %s %s %s" % (tok_term(i["token"]), hx(i["coin"]), hx(i["port"]), hx(i["chan"]), b(o["err"]), b(o["panic"]),
                                                        N(ACT[o["action"]]), opt(o["bank"], hx), opt(o["pd"], hx), opt(o["rl"], hx), b(o["pd_valid"]))


def spec_ics20_send(r):
    i, o = r["in"], r["out"]
    if o["panic"]:
        return "SendTransfer panicked on coin %s" % S(i["coin"])
    if not o["err"] and o["pd_valid"] and o["bank"] is not None and o["bank"] != o["rl"]:
        return "send of coin %s over %s: rate limiting charges %s but ICS-20 %ss %s" % (S(i["coin"]), S(i["chan"]), S(o["rl"]), o["action"], S(o["bank"]))


def enc_rl_flow(r):
    i, o = r["in"], r["out"]
    if i["dir"] == "send":
        return "RlFlowSend %s %s %s %s %s %s %s" % (hx(i["port"]), hx(i["chan"]), hx(i["coin"]), tok_term(i["token"]), b(o["ok"]), opt(o["bank"], hx), hx(o["rl"]))
    return "RlFlowRecv %s %s %s %s %s %s %s %s" % (hx(i["sp"]), hx(i["sc"]), hx(i["dp"]), hx(i["dc"]), hx(i["pd"]), b(o["ok"]), opt(o["bank"], hx), hx(o["rl"]))


def spec_rl_flow(r):
    i, o = r["in"], r["out"]
    if not o["ok"] or o["bank"] is None:
        return None
    what = ("send of %s over %s" % (S(i["coin"]), S(i["chan"]))) if i["dir"] == "send" else ("receive of %s on %s" % (S(i["pd"]), S(i["dc"])))
    if o["bank"] != o["rl"]:
        charged = int(o["flow_rl"])
        extra = "" if i["dir"] != "send" else " (flow recorded on the moved denomination: %s)" % o["flow_bank"]
        return "%s: the bank moved %s of %s but the rate-limit flow (%d) was charged to %s%s" % (what, i["amt"], S(o["bank"]), charged, S(o["rl"]), extra)
    if int(o["flow_rl"]) != int(i["amt"]):
        return "%s: %s of %s moved but the flow charged to it is %s" % (what, i["amt"], S(o["bank"]), o["flow_rl"])


def known_f5c(r):
    """rate limiting and ICS-20 derive the denomination with different code: a denomination whose path parses back to
    a different (trace, base), a source channel identifier that is not in ibc-go format, or a path starting with ibc/"""
    k, i = r["k"], r["in"]
    if k == "ics20_send" or (k == "rl_flow" and i["dir"] == "send"):
        tr, base = tok(i["token"])
        return (not parses_back(tr, base)) or py_path(tr, base).startswith(b"ibc/")
    if k == "ics20_recv":
        sp, sc, dp, dc, pd = (H(x) for x in i)
    elif k == "rl_flow":
        sp, sc, dp, dc, pd = (H(i[x]) for x in ("sp", "sc", "dp", "dc", "pd"))
    else:
        return False
    if not hop_id(sc) and pd.startswith(sp + b"/" + sc + b"/"):
        return True
    tr, base = py_extract(pd)
    if tr[:1] == [(sp, sc)]:
        return not parses_back(tr[1:], base)
    return not parses_back([(dp, dc)] + tr, base)


# ---- C36 ---------------------------------------------------------------------------------------------------------

SENT = (1 << 256) - 1


def coins_term(cs):
    return lst(cs, lambda dv: pair(hx(dv[0]), Z(0 if dv[1] == "nil" else dv[1])))


def alloc_term(a):
    return "(mkAlloc %s %s %s %s %s)" % (hx(a["port"]), hx(a["chan"]), coins_term(a["limit"]), lst(a["allow"], hx), lst(a["memos"], hx))


def grant_term(g):
    return lst(g, alloc_term)


def req_term(q):
    return "(mkReq %s %s %s %s %s %s)" % (hx(q["port"]), hx(q["chan"]), hx(q["denom"]), Z(q["amt"]), hx(q["receiver"]), hx(q["memo"]))


def state_term(st):
    return opt(st, lambda g: lst(g, lambda a: "(%s, %s, %s)" % (hx(a["port"]), hx(a["chan"]), coins_term(a["limit"]))))


def enc_authz_valid(r):
    return "AuthzValid %s %s %s" % (grant_term(r["in"]), b(r["out"]["ok"]), b(r["out"]["panic"]))


def spec_authz_valid(r):
    if r["out"]["panic"]:
        return "TransferAuthorization.ValidateBasic panicked"
    # independent reading of ValidateBasic's documented rules
    g = r["in"]
    ok = len(g) > 0
    seen = set()
    for a in g:
        if a["chan"] in seen:
            ok = False
        seen.add(a["chan"])
        lim = a["limit"]
        dn = [H(d) for d, _ in lim]
        if not lim or any(v == "nil" or int(v) <= 0 for _, v in lim) or dn != sorted(set(dn)) or any(RE_SDK.fullmatch(d) is None for d in dn):
            ok = False
        if not id_validator(H(a["port"]), 2, 128) or not id_validator(H(a["chan"]), 8, 64):
            ok = False
        if len(set(a["allow"])) != len(a["allow"]):
            ok = False
    if ok != r["out"]["ok"]:
        return "ValidateBasic returned %s for a grant that the documented rules %s" % (r["out"]["ok"], "accept" if ok else "reject")


def enc_authz_run(r):
    obs = lst(r["out"], lambda o: "(%s, %s)" % (b(o["ok"]), state_term(o["state"])))
    return "AuthzRun %s %s %s" % (grant_term(r["in"]["grant"]), lst(r["in"]["reqs"], req_term), obs)


def enc_authz_exec(r):
    rs = lst(r["in"]["reqs"], lambda q: "(%s, %s, %s)" % (req_term(q), Z(q["spendable"]), b(q.get("exec_failed", False))))
    obs = lst(r["out"], lambda o: "(%s, %s, %s)" % (b(o["ok"]), state_term(o["state"]), Z(o["moved"])))
    return "AuthzExec %s %s %s" % (grant_term(r["in"]["grant"]), rs, obs)


def memo_allowed(memo, allowed):
    if not allowed:
        return memo.strip() == b""
    if allowed == [b"*"]:
        return True
    return memo.strip() in [m.strip() for m in allowed]


def spec_authz_seq(r):
    """the property evaluated on what the implementation did along the whole request sequence"""
    g0 = r["in"]["grant"]
    limit0, rules = {}, {}
    for a in g0:
        k = (a["port"], a["chan"])
        rules.setdefault(k, a)
        for d, v in a["limit"]:
            limit0.setdefault(k + (d,), int(v))
    spent = {}
    moved_total = {}
    prev_state = g0
    for n, (q, o) in enumerate(zip(r["in"]["reqs"], r["out"])):
        if o.get("panic"):
            return "request %d: Accept panicked" % n
        k2 = (q["port"], q["chan"])
        k3 = k2 + (q["denom"],)
        amt = int(q["amt"])
        l0 = limit0.get(k3, 0)
        what = "request %d (%s %s over %s/%s to %s memo %s)" % (n, q["amt"], S(q["denom"]), S(q["port"]), S(q["chan"]), S(q["receiver"]), S(q["memo"]))
        if o["ok"]:
            a0 = rules.get(k2)
            if a0 is None:
                return what + " was accepted although the grant has no allocation for that port/channel"
            if a0["allow"] and q["receiver"] not in a0["allow"]:
                return what + " was accepted although the receiver is not in the allow list"
            if not memo_allowed(H(q["memo"]), [H(m) for m in a0["memos"]]):
                return what + " was accepted although the memo is not allowed"
            if amt == SENT and l0 != SENT:
                return what + ": the 'entire balance' sentinel amount was accepted against the bounded limit %d" % l0
            if l0 != SENT:
                spent[k3] = spent.get(k3, 0) + amt
                if spent[k3] > l0:
                    return what + ": accepted total %d exceeds the granted limit %d" % (spent[k3], l0)
        if "moved" in o:
            mv = int(o["moved"])
            want = 0 if not o["ok"] else (int(q["spendable"]) if amt == SENT else amt)
            if mv != want:
                return what + ": %d left the granter's account, expected %d" % (mv, want)
            if l0 != SENT:
                moved_total[k3] = moved_total.get(k3, 0) + mv
                if moved_total[k3] > l0:
                    return what + ": tokens actually moved (%d) exceed the granted limit %d" % (moved_total[k3], l0)
        # stored grant afterwards
        st = o["state"]
        if not o["ok"] and st != prev_state:
            return what + " was rejected but the stored grant changed"
        prev_state = st
        have = {}
        present = set()
        for a in (st or []):
            present.add((a["port"], a["chan"]))
            if not a["limit"] or any(int(v) <= 0 for _, v in a["limit"]):
                return what + ": an allocation with an exhausted (empty or zero) limit is still stored"
            for d, v in a["limit"]:
                have[(a["port"], a["chan"], d)] = int(v)
        if st is not None and not st:
            return what + ": a grant with no allocation left is still stored"
        alive = set()
        for k, l0k in limit0.items():
            want = l0k if l0k == SENT else l0k - spent.get(k, 0)
            if have.get(k, 0) != want:
                return what + ": remaining limit for %s is %d, expected initial %d minus accepted %d" % ((S(k[0]), S(k[1]), S(k[2])), have.get(k, 0), l0k, spent.get(k, 0))
            if want > 0:
                alive.add(k[:2])
        if present != alive:
            return what + ": stored allocations %s, expected exactly the non-exhausted ones %s" % (sorted(present), sorted(alive))
    return None


KINDS = {
    "ident": dict(props=["C34"], enc=enc_ident, spec=spec_ident, exact=True),
    "extract": dict(props=["C34"], enc=enc_extract, spec=spec_extract, exact=True),
    "denom": dict(props=["C34"], enc=enc_denom, spec=spec_denom, exact=True),
    "escrow": dict(props=["C34"], enc=enc_escrow, spec=spec_escrow, exact=True),
    "setdenom": dict(props=["C34"], enc=enc_setdenom, spec=spec_setdenom, exact=True),
    "recv_setdenom": dict(props=["C34"], enc=enc_recv_setdenom, spec=spec_recv_setdenom, exact=True),
    "rl_send": dict(props=["C42"], enc=enc_rl_send, spec=None, exact=False),
    "rl_recv": dict(props=["C42"], enc=enc_rl_recv, spec=None, exact=False),
    "v2reenc": dict(props=["C42"], enc=enc_v2reenc, spec=spec_v2reenc, exact=False),
    "ics20_recv": dict(props=["C42"], enc=enc_ics20_recv, spec=spec_ics20_recv, exact=False),
    "ics20_send": dict(props=["C42"], enc=enc_ics20_send, spec=spec_ics20_send, exact=False),
    "rl_flow": dict(props=["C42"], enc=enc_rl_flow, spec=spec_rl_flow, exact=False),
    "roundtrip": dict(props=["C33"], enc=enc_roundtrip, spec=spec_roundtrip, exact=False),
    "authz_valid": dict(props=["C36"], enc=enc_authz_valid, spec=spec_authz_valid, exact=True),
    "authz_run": dict(props=["C36", "C49"], enc=enc_authz_run, spec=spec_authz_seq, exact=True),
    "authz_exec": dict(props=["C36", "C49"], enc=enc_authz_exec, spec=spec_authz_seq, exact=True),
}

MONITORS = {"C34": [mon_escrow_distinct]}

KNOWN = {"F5b": known_f5b, "F5c": known_f5c}
