"""`genesis` family (C44): export -> wipe -> InitGenesis -> compare -> re-export on real chains after histories,
then continued relaying on the restored chains."""
import re
from lib.coqgen import N, b, hx, opt, lst

NAME = "genesis"
GO_PKG = "./genesis"
COQ_IMPORTS = "From IBC Require Import Lib.Bytes Lib.CorrLib Sys.Genesis Corr.Genesis."
CASE_TYPE = "Case"
CHECK = "check"

ID = rb"[A-Za-z0-9._+\-#\[\]<>]+"
RE_V2 = re.compile(rb"^(" + ID + rb")([\x01\x02\x03])(.{8})$", re.S)
RE_ASYNC = re.compile(rb"^(" + ID + rb")async_packet(.{8})$", re.S)
RE_ALIAS = re.compile(rb"^(" + ID + rb")alias$")
RE_CHAN = re.compile(rb"^channelEnds/ports/(" + ID + rb")/channels/(" + ID + rb")$")
RE_SEND = re.compile(rb"^nextSequenceSend//(" + ID + rb")$")
V2K = {1: "VCommit", 2: "VReceipt", 3: "VAck"}


def hb(x):
    return hx(x.hex())


def key_term(kb):
    """classification of a raw ibc-store key into the model's structured key"""
    if kb.startswith(b"clients/"):
        return "KClient %s" % hb(kb)
    m = RE_CHAN.match(kb)
    if m:
        return "KChannel %s %s" % (hb(m.group(1)), hb(m.group(2)))
    m = RE_SEND.match(kb)
    if m:
        return "KNextSend %s" % hb(m.group(1))
    m = RE_ASYNC.match(kb)
    if m:
        return "KV2 VAsync %s %d" % (hb(m.group(1)), int.from_bytes(m.group(2), "big"))
    m = RE_V2.match(kb)
    if m and b"/" not in m.group(1):
        return "KV2 %s %s %d" % (V2K[m.group(2)[0]], hb(m.group(1)), int.from_bytes(m.group(3), "big"))
    m = RE_ALIAS.match(kb)
    if m:
        return "KAlias %s" % hb(m.group(1))
    return "KPlain %s" % hb(kb)


def ibc_state(o):
    return [(bytes.fromhex(k), v) for s, k, v in o["state"] if s == "ibc"]


def enc_rt(r):
    o = r["out"]
    st = ibc_state(o)
    sentinel = "00"
    for k, v in st:
        if k == b"connections/connection-localhost":
            sentinel = v
    order = {k: i for i, (k, _) in enumerate(st)}
    export_ok = o["export"] == "ok"
    init_ok = export_ok and o.get("init") == "ok"
    lost = sorted((bytes.fromhex(k) for s, k in o.get("lost", []) if s == "ibc"), key=lambda k: order.get(k, 1 << 30)) if init_ok else []
    # a changed value is a loss of the original entry too
    changed = [bytes.fromhex(k) for s, k in o.get("changed", []) if s == "ibc"] if init_ok else []
    lost = sorted(set(lost) | set(changed), key=lambda k: order.get(k, 1 << 30))
    extra = [bytes.fromhex(k) for s, k in o.get("extra", []) if s == "ibc"] if init_ok else []
    return "RT %s %s %s %s %s %s" % (
        hx(sentinel), lst(st, lambda kv: "(%s, %s)" % (key_term(kv[0]), hx(kv[1]))), b(export_ok), b(init_ok),
        lst(lost, lambda k: "(" + key_term(k) + ")"), lst(extra + changed, lambda k: "(" + key_term(k) + ")"))


def _fmt(keys, n=6):
    return ", ".join("%s:%r" % (s, bytes.fromhex(k)) for s, k in keys[:n]) + (" …(+%d)" % (len(keys) - n) if len(keys) > n else "")


def spec_rt(r):
    """C44 on the implementation: nothing lost, nothing changed, nothing invented, re-export identical."""
    o = r["out"]
    where = "chain %s of history %s %s" % (r["in"].get("chain"), r["in"].get("tag"), r["in"].get("ops"))
    if o["export"] != "ok":
        return "ExportGenesis panicked (%s) on %s" % (o["export"], where)
    if o.get("init") != "ok":
        return "InitGenesis panicked (%s) on the chain's own export, %s" % (o.get("init"), where)
    if o.get("lost"):
        return "state lost across export/InitGenesis: %s — %s" % (_fmt(o["lost"]), where)
    if o.get("changed"):
        return "state changed across export/InitGenesis: %s — %s" % (_fmt(o["changed"]), where)
    if o.get("extra"):
        return "InitGenesis created state that was not exported from: %s — %s" % (_fmt(o["extra"]), where)
    if o.get("reexport") != "ok":
        return "re-export panicked (%s) — %s" % (o.get("reexport"), where)
    bad = sorted(m for m, same in o.get("reexport_same", {}).items() if not same)
    if bad:
        return "re-exported genesis differs from the first export for modules %s — %s" % (bad, where)


def spec_cont(r):
    o = r["out"]
    if not o.get("restored"):
        return None   # reported on the chain's own genesis_rt record
    failed = [c for c in o["cont"] if c["outcome"] != "ok"]
    if failed:
        return "after restoring the chains from their exports, in-flight traffic can no longer be completed: %s (history %s)" % (
            [(c["op"], c["outcome"]) for c in failed], r["in"].get("ops"))
    if o.get("fresh_transfer") not in ("ok", "skipped"):
        return "a new transfer on the restored chains failed (%s)" % o.get("fresh_transfer")


# ---- known findings ----------------------------------------------------------------------------

RE_ALIAS_KEY = re.compile(rb"^(channel-[0-9]+)(alias|[\x01\x02\x03].{8}|async_packet.{8})$|^clients/(channel-[0-9]+)/counterparty$", re.S)


def known_f3(r):
    """F3: the only defect of the record is that state keyed by an aliased v1 channel id is missing after the round trip."""
    o = r["out"]
    if r["k"] == "genesis_cont":
        failed = [c for c in o["cont"] if c["outcome"] != "ok"]
        return bool(o.get("restored")) and bool(failed) and all(c.get("alias") for c in failed) and bool(o.get("alias_lost")) \
            and o.get("fresh_transfer") == "ok"
    if r["k"] != "genesis_rt":
        return False
    if o["export"] != "ok" or o.get("init") != "ok" or o.get("reexport") != "ok":
        return False
    if o.get("changed") or o.get("extra") or not o.get("lost"):
        return False
    if not all(o.get("reexport_same", {}).values()):
        return False
    aliases = {bytes.fromhex(k)[:-5] for s, k, v in o["state"] if s == "ibc" and bytes.fromhex(k).endswith(b"alias")}
    for s, k in o["lost"]:
        if s != "ibc":
            return False
        m = RE_ALIAS_KEY.match(bytes.fromhex(k))
        if not m or (m.group(1) or m.group(3)) not in aliases:
            return False
    return True


def known_f8(r):
    """F8: InitGenesis of ibc panics and some genesis client's registered counterparty has the same client id."""
    o = r["out"]
    if r["k"] != "genesis_rt" or o["export"] != "ok" or o.get("init") != "panic:ibc":
        return False
    keys = {bytes.fromhex(k): v for s, k, v in o["state"] if s == "ibc"}
    for k, v in keys.items():
        m = re.match(rb"^clients/(" + ID + rb")/counterparty$", k)
        if m and bytes.fromhex(v) == m.group(1) and (b"clients/" + m.group(1) + b"/clientState") in keys:
            return True
    return False


def nontrivial_rt(r):
    return len(r["out"].get("state", [])) > 20


KINDS = {
    "genesis_rt": dict(props=["C44"], enc=enc_rt, spec=spec_rt, exact=False, nontrivial=nontrivial_rt),
    "genesis_cont": dict(props=["C44"], enc=lambda r: "ClientKey (hx \"\") 3", spec=spec_cont, exact=False),
}

KNOWN = {"F3": known_f3, "F8": known_f8}
