// mapsites lists every `range` over a map-typed expression in the non-test Go files below <repo>/modules
// (C45 source inventory).  Output: JSON list of {file, func, expr, sig} sorted by sig; sig is line-independent:
// "<file relative to repo>:<enclosing function>:<ranged expression text>[#n]".
package main

import (
	"bytes"
	"encoding/json"
	"flag"
	"fmt"
	"go/ast"
	"go/printer"
	"go/token"
	"go/types"
	"os"
	"path/filepath"
	"sort"
	"strings"

	"golang.org/x/tools/go/packages"
)

type site struct {
	File string `json:"file"`
	Func string `json:"func"`
	Expr string `json:"expr"`
	Type string `json:"type"`
	Sig  string `json:"sig"`
}

func main() {
	repo := flag.String("repo", "/repo", "repository root")
	flag.Parse()
	root, _ := filepath.Abs(*repo)
	var sites []site
	// the root module and the nested 08-wasm module
	for _, dir := range []string{root, filepath.Join(root, "modules/light-clients/08-wasm")} {
		cfg := &packages.Config{
			Mode:  packages.NeedName | packages.NeedFiles | packages.NeedSyntax | packages.NeedTypes | packages.NeedTypesInfo | packages.NeedImports | packages.NeedDeps,
			Dir:   dir,
			Tests: false,
			Env:   append(os.Environ(), "GOFLAGS=-mod=mod", "GOPROXY=off"),
		}
		pattern := "./modules/..."
		if dir != root {
			pattern = "./..."
		}
		pkgs, err := packages.Load(cfg, pattern)
		if err != nil {
			fmt.Fprintln(os.Stderr, "load:", err)
			os.Exit(2)
		}
		bad := 0
		for _, p := range pkgs {
			for _, e := range p.Errors {
				fmt.Fprintln(os.Stderr, "package error:", p.PkgPath, e)
				bad++
			}
		}
		if bad > 0 {
			os.Exit(2)
		}
		for _, p := range pkgs {
			for _, f := range p.Syntax {
				name := p.Fset.Position(f.Pos()).Filename
				if strings.HasSuffix(name, "_test.go") || strings.HasSuffix(name, ".pb.go") || strings.HasSuffix(name, ".pb.gw.go") {
					continue
				}
				rel, _ := filepath.Rel(root, name)
				if !strings.HasPrefix(rel, "modules/") {
					continue
				}
				sites = append(sites, scan(p.Fset, p.TypesInfo, f, rel)...)
			}
		}
	}
	// disambiguate repeated signatures within one function
	seen := map[string]int{}
	for i := range sites {
		n := seen[sites[i].Sig]
		seen[sites[i].Sig] = n + 1
		if n > 0 {
			sites[i].Sig = fmt.Sprintf("%s#%d", sites[i].Sig, n+1)
		}
	}
	sort.Slice(sites, func(i, j int) bool { return sites[i].Sig < sites[j].Sig })
	enc := json.NewEncoder(os.Stdout)
	enc.SetIndent("", " ")
	if sites == nil {
		sites = []site{}
	}
	enc.Encode(sites)
}

func scan(fset *token.FileSet, info *types.Info, f *ast.File, rel string) []site {
	var out []site
	var stack []string
	var visit func(n ast.Node) bool
	visit = func(n ast.Node) bool {
		switch x := n.(type) {
		case *ast.FuncDecl:
			name := x.Name.Name
			if x.Recv != nil && len(x.Recv.List) > 0 {
				var b bytes.Buffer
				printer.Fprint(&b, fset, x.Recv.List[0].Type)
				name = "(" + b.String() + ")." + name
			}
			stack = append(stack, name)
			if x.Body != nil {
				ast.Inspect(x.Body, visit)
			}
			stack = stack[:len(stack)-1]
			return false
		case *ast.RangeStmt:
			if tv, ok := info.Types[x.X]; ok {
				if _, isMap := tv.Type.Underlying().(*types.Map); isMap {
					var b bytes.Buffer
					printer.Fprint(&b, fset, x.X)
					fn := "<file scope>"
					if len(stack) > 0 {
						fn = stack[len(stack)-1]
					}
					out = append(out, site{File: rel, Func: fn, Expr: b.String(), Type: tv.Type.String(),
						Sig: rel + ":" + fn + ":" + b.String()})
				}
			}
		}
		return true
	}
	ast.Inspect(f, visit)
	return out
}
