module verif/mapsites

go 1.26.5

require golang.org/x/tools v0.47.0

require (
	golang.org/x/mod v0.37.0 // indirect
	golang.org/x/sync v0.22.0 // indirect
)
